(* C06 (runner side): a scheduled tick leaves the wake-up list only when the clock has reached its time. *)
From Coq Require Import List ZArith Bool Lia.
Import ListNotations.
From WF Require Import Model.Engine Model.Runner.
Open Scope Z_scope.

Lemma due_spec now : forall l d rest,
  due now l = (d, rest) ->
  exists pre, l = pre ++ rest /\ map (fun w => snd w) pre = d /\ Forall (fun w => fst (fst w) <= now) pre.
Proof.
  induction l as [|[[t s] k] r IH]; intros d rest H; cbn [due] in H.
  - inversion H; subst. exists []. repeat split; constructor.
  - destruct (Z.leb t now) eqn:E.
    + destruct (due now r) as [d' r'] eqn:D. inversion H; subst.
      destruct (IH _ _ eq_refl) as [pre [L [M F]]]. exists ((t, s, k) :: pre). repeat split.
      * cbn [app]. rewrite L. reflexivity.
      * cbn [map snd]. rewrite M. reflexivity.
      * constructor; [cbn; apply Z.leb_le; exact E|exact F].
    + inversion H; subst. exists []. repeat split; constructor.
Qed.
