(* Invariants of M-IdleRelease (Model/IdleRelease.v), proved for every action sequence. *)
From Coq Require Import List ZArith Bool PeanoNat Lia Permutation.
Import ListNotations.
From WF Require Import Model.IdleRelease.
Open Scope Z_scope.

(* ---------- counting tasks by program counter ---------- *)
Definition b2n (b : bool) : nat := if b then 1%nat else 0%nat.
Fixpoint count (f : pc -> bool) (l : list pc) : nat :=
  match l with [] => 0%nat | p :: t => (b2n (f p) + count f t)%nat end.

Lemma count_app f l p : count f (l ++ [p]) = (count f l + b2n (f p))%nat.
Proof. induction l as [|q t IH]; cbn; [lia|]. rewrite IH. lia. Qed.

Lemma count_upd f l : forall i p q, nth_error l i = Some q ->
  (count f (upd i p l) + b2n (f q) = count f l + b2n (f p))%nat.
Proof.
  induction l as [|h t IH]; intros [|i] p q H; cbn in *; try discriminate.
  - injection H as <-. lia.
  - specialize (IH _ p _ H). lia.
Qed.

Lemma count_done f (l : list pc) : f Done = false -> count f (map (fun _ => Done) l) = 0%nat.
Proof. intro H. induction l; cbn; [reflexivity|]. rewrite H, IHl. reflexivity. Qed.

Lemma forallb_count f l : forallb (fun p => negb (f p)) l = true <-> count f l = 0%nat.
Proof.
  induction l as [|p t IH]; cbn; [tauto|].
  destruct (f p); cbn; split; intro H; try discriminate; try lia.
  - apply IH in H. lia.
  - apply IH. lia.
Qed.

Lemma existsb_count f l : existsb f l = true <-> (0 < count f l)%nat.
Proof.
  induction l as [|p t IH]; cbn; [split; [discriminate|lia]|].
  destruct (f p); cbn; split; intro H; try lia; try reflexivity.
  - apply IH in H. lia.
  - apply IH. lia.
Qed.

Lemma existsb_count0 f l : existsb f l = false <-> count f l = 0%nat.
Proof.
  destruct (existsb f l) eqn:E.
  - apply existsb_count in E. split; [discriminate|lia].
  - split; [|reflexivity]. intros _. destruct (count f l) eqn:C; [reflexivity|].
    assert (existsb f l = true) by (apply existsb_count; lia). congruence.
Qed.

Lemma lock_free_count s : lock_free s = true <-> count holds (tasks s) = 0%nat.
Proof. unfold lock_free. apply forallb_count. Qed.

Lemma count_nth_pos f l i q : nth_error l i = Some q -> f q = true -> (0 < count f l)%nat.
Proof.
  revert i. induction l as [|h t IH]; intros [|i] H Hq; cbn in *; try discriminate.
  - injection H as ->. rewrite Hq. cbn. lia.
  - specialize (IH _ H Hq). lia.
Qed.

Lemma in_upd_other {A} (l : list A) : forall i x p q, nth_error l i = Some q -> In p l -> p <> q -> In p (upd i x l).
Proof.
  induction l as [|h t IH]; intros [|i] x p q H Hin Hne; cbn in *; try discriminate; try tauto.
  - injection H as ->. destruct Hin as [->|Hin]; [congruence|right; exact Hin].
  - destruct Hin as [->|Hin]; [left; reflexivity|right; eapply IH; eauto].
Qed.

Lemma in_upd_self {A} (l : list A) : forall i x q, nth_error l i = Some q -> In x (upd i x l).
Proof.
  induction l as [|h t IH]; intros [|i] x q H; cbn in *; try discriminate.
  - left; reflexivity.
  - right; eapply IH; eauto.
Qed.

Lemma in_upd_inv {A} (l : list A) : forall i x p, In p (upd i x l) -> p = x \/ In p l.
Proof.
  induction l as [|h t IH]; intros [|i] x p H; cbn in *; try tauto.
  - destruct H as [->|H]; [left; reflexivity|right; right; exact H].
  - destruct H as [->|H]; [right; left; reflexivity|]. apply IH in H. tauto.
Qed.

Lemma nth_error_in_tasks {A} (l : list A) i q : nth_error l i = Some q -> In q l.
Proof. apply nth_error_In. Qed.

(* ---------- step inversion helpers ---------- *)
Ltac head_case H :=
  unfold with_head in H;
  match type of H with
  | match loops ?s with _ => _ end = _ => destruct (loops s) as [|?v ?r] eqn:?Hloops; [discriminate|]
  end.

Ltac inv_some H := injection H as H; subst.

(* fields of the result of [step] in terms of [step0] *)
Lemma step_split tau s a s' : step tau s a = Some s' ->
  exists s0, step0 tau s a = Some s0 /\ s' = set_raced s0 (raced (g s0) || race_now s0).
Proof.
  unfold step. destruct (step0 tau s a) as [s0|]; [|discriminate].
  intro H. injection H as <-. eauto.
Qed.

(* ---------- general invariants (every reachable state) ---------- *)
Definition is_mid (p : pc) : bool :=
  match p with SHold _ | SReloaded _ | SCleared _ => true | _ => false end.
Definition due_ok (nw : Z) (p : pc) : Prop :=
  match p with RWant d | RHold d => d <= nw | _ => True end.
Definition cap_ok (nw : Z) (v : vol) : Prop :=
  match idle_cap v with Some t => t <= nw | None => True end.

Record GInv (s : st) : Prop := {
  g_one_loop : (length (loops s) <= 1)%nat ;
  g_live_active : active s = false -> loops s = [] ;
  g_lock : (count holds (tasks s) <= 1)%nat ;
  g_unstarted : started s = false ->
     loops s = [] /\ tasks s = [] /\ running s = false /\ active s = false /\ released (g s) = false ;
  g_due : Forall (due_ok (now s)) (tasks s) ;
  g_cap : Forall (cap_ok (now s)) (loops s) ;
  g_released : released (g s) = true -> idle_since s <> None /\ active s = false /\ count is_mid (tasks s) = 0%nat ;
  g_mid_active : (0 < count is_mid (tasks s))%nat -> active s = true ;
  g_boot : resumed s = false -> count is_breplay (tasks s) = 0%nat ;
  g_boot1 : (count is_breplay (tasks s) <= 1)%nat }.

Lemma holds_mid p : is_mid p = true -> holds p = true.
Proof. destruct p; cbn; congruence. Qed.

Lemma count_le f h l : (forall p, f p = true -> h p = true) -> (count f l <= count h l)%nat.
Proof.
  intro H. induction l as [|p t IH]; cbn; [lia|].
  destruct (f p) eqn:E; [rewrite (H _ E)|]; cbn; destruct (h p); cbn; lia.
Qed.

Lemma Forall_upd {A} (P : A -> Prop) l : forall i x, Forall P l -> P x -> Forall P (upd i x l).
Proof.
  induction l as [|h t IH]; intros [|i] x Hl Hx; cbn; auto; inversion Hl; subst; constructor; auto.
Qed.

Lemma Forall_due_mono n n' l : n <= n' -> Forall (due_ok n) l -> Forall (due_ok n') l.
Proof.
  intros Hle H. induction H; constructor; auto.
  destruct x; cbn in *; auto; lia.
Qed.
Lemma Forall_cap_mono n n' l : n <= n' -> Forall (cap_ok n) l -> Forall (cap_ok n') l.
Proof.
  intros Hle H. induction H; constructor; auto.
  unfold cap_ok in *. destruct (idle_cap x); auto; lia.
Qed.

Lemma GInv_init : GInv init.
Proof. constructor; cbn; intros; auto; try lia; try discriminate. Qed.

(* run_workflow: both outcomes *)
Lemma run_workflow_ok s s1 : run_workflow s = (s1, true) ->
  loops s = [] /\ s1 = set_released (set_reloads (set_loops (set_active s true) [fresh]) (S (reloads (g s)))) false.
Proof. unfold run_workflow. destruct (loops s); intro H; inversion H; auto. Qed.
Lemma run_workflow_fail s s1 : run_workflow s = (s1, false) ->
  loops s <> [] /\ s1 = set_guard_hits (set_active s true) (S (guard_hits (g s))).
Proof. unfold run_workflow. destruct (loops s); intro H; inversion H; split; auto; discriminate. Qed.

Ltac count_upd_all Hn :=
  let t := fresh in
  pose proof (fun f p => count_upd f _ _ p _ Hn) as t.

Lemma fresh_cap n : cap_ok n fresh.
Proof. exact I. Qed.

Lemma GInv_task tau s i s0 : GInv s -> task_step tau s i = Some s0 -> GInv s0.
Proof.
  intros [G1 G2 G3 G4 G5 G6 G7 G8 G9 G10] H. unfold task_step in H.
  destruct (nth_error (tasks s) i) as [p|] eqn:Hn; [|discriminate].
  assert (Hst : started s = true).
  { destruct (started s) eqn:E; [reflexivity|]. destruct (G4 eq_refl) as (_ & Ht & _). rewrite Ht in Hn.
    destruct i; discriminate. }
  pose proof (fun f p' => count_upd f _ _ p' _ Hn) as CU.
  assert (Hmh := count_le is_mid holds (tasks s) holds_mid).
  destruct p.
  - (* SWant *)
    destruct (lock_free s) eqn:Hlf; [|discriminate]. apply lock_free_count in Hlf. inv_some H.
    assert (Hm0 : count is_mid (tasks s) = 0%nat) by lia.
    destruct (active s) eqn:Ha; constructor; cbn; intros; auto; try congruence;
      try (specialize (CU holds (SHold e)); cbn in CU; lia);
      try (specialize (CU holds (SReloading e)); cbn in CU; lia);
      try (apply Forall_upd; [assumption|exact I]);
      try (specialize (CU is_breplay (SHold e)); cbn in CU; specialize (G9 H); lia);
      try (specialize (CU is_breplay (SReloading e)); cbn in CU; specialize (G9 H); lia);
      try (specialize (CU is_breplay (SHold e)); cbn in CU; lia);
      try (specialize (CU is_breplay (SReloading e)); cbn in CU; lia).
    + destruct (G7 H) as (? & ? & ?). congruence.
    + destruct (G7 H) as (? & ? & ?). repeat split; auto. specialize (CU is_mid (SReloading e)); cbn in CU; lia.
    + specialize (CU is_mid (SReloading e)); cbn in CU; lia.
  - (* SHold *)
    inv_some H.
    assert (Hact : active s = true) by (apply G8; eapply count_nth_pos; eauto).
    constructor; cbn; intros; auto; try congruence;
      try (specialize (CU holds (SCleared e)); cbn in CU; lia);
      try (apply Forall_upd; [assumption|exact I]);
      try (specialize (CU is_breplay (SCleared e)); cbn in CU; try specialize (G9 H); lia).
    destruct (G7 H) as (? & ? & ?). congruence.
  - (* SReloading *)
    destruct (run_workflow s) as [s1 ok] eqn:Hrw. destruct ok.
    + apply run_workflow_ok in Hrw. destruct Hrw as (Hl & ->). inv_some H.
      constructor; cbn; intros; auto; try congruence; try lia;
        try (specialize (CU holds (SReloaded e)); cbn in CU; lia);
        try (apply Forall_upd; [assumption|exact I]);
        try (constructor; [exact I|constructor]);
        try (specialize (CU is_breplay (SReloaded e)); cbn in CU; try specialize (G9 H); lia).
    + apply run_workflow_fail in Hrw. destruct Hrw as (Hl & ->). inv_some H.
      constructor; cbn; intros; auto; try congruence;
        try (specialize (CU holds Done); cbn in CU; lia);
        try (apply Forall_upd; [assumption|exact I]);
        try (specialize (CU is_breplay Done); cbn in CU; try specialize (G9 H); lia).
      destruct (G7 H) as (? & Hf & ?). apply G2 in Hf. contradiction.
  - (* SReloaded *)
    inv_some H.
    assert (Hact : active s = true) by (apply G8; eapply count_nth_pos; eauto).
    constructor; cbn; intros; auto; try congruence;
      try (specialize (CU holds (SCleared e)); cbn in CU; lia);
      try (apply Forall_upd; [assumption|exact I]);
      try (specialize (CU is_breplay (SCleared e)); cbn in CU; try specialize (G9 H); lia).
    destruct (G7 H) as (? & ? & ?). congruence.
  - (* SCleared *)
    inv_some H.
    assert (Hact : active s = true) by (apply G8; eapply count_nth_pos; eauto).
    unfold put. destruct (loops s) as [|v r] eqn:Hl; [destruct (running s)|];
    (constructor; cbn; rewrite ?Hl; cbn; intros; auto; try congruence;
      try (specialize (CU holds Done); cbn in CU; lia);
      try (apply Forall_upd; [assumption|exact I]);
      try (specialize (CU is_breplay Done); cbn in CU; try specialize (G9 H); lia);
      try (destruct (G7 H) as (? & ? & ?); congruence);
      try (specialize (CU is_mid Done); cbn in CU; apply G8; lia)).
    + inversion G6; subst. constructor; auto.
  - (* RSleep *)
    destruct (Z.leb due (now s)) eqn:Hd; [|discriminate]. inv_some H. apply Z.leb_le in Hd.
    constructor; cbn; intros; auto; try congruence;
      try (specialize (CU holds (RWant due)); cbn in CU; lia);
      try (apply Forall_upd; [assumption|exact Hd]);
      try (specialize (CU is_breplay (RWant due)); cbn in CU; try specialize (G9 H); lia).
    + destruct (G7 H) as (? & ? & ?). repeat split; auto. specialize (CU is_mid (RWant due)); cbn in CU; lia.
    + apply G8. specialize (CU is_mid (RWant due)); cbn in CU; lia.
  - (* RWant *)
    destruct (lock_free s) eqn:Hlf; [|discriminate]. apply lock_free_count in Hlf. inv_some H.
    assert (Hd : due <= now s).
    { rewrite Forall_forall in G5. exact (G5 _ (nth_error_In _ _ Hn)). }
    constructor; cbn; intros; auto; try congruence;
      try (specialize (CU holds (RHold due)); cbn in CU; lia);
      try (apply Forall_upd; [assumption|exact Hd]);
      try (specialize (CU is_breplay (RHold due)); cbn in CU; try specialize (G9 H); lia).
    + destruct (G7 H) as (? & ? & ?). repeat split; auto. specialize (CU is_mid (RHold due)); cbn in CU; lia.
    + apply G8. specialize (CU is_mid (RHold due)); cbn in CU; lia.
  - (* RHold *)
    inv_some H.
    assert (Hh : count holds (tasks s) = 1%nat).
    { pose proof (count_nth_pos holds _ _ _ Hn eq_refl). lia. }
    assert (Hm0 : count is_mid (upd i Done (tasks s)) = 0%nat).
    { pose proof (CU holds Done) as C1. cbn in C1.
      pose proof (count_le is_mid holds (upd i Done (tasks s)) holds_mid). lia. }
    destruct (release_check tau s) eqn:Hrc.
    + unfold release_check in Hrc. apply andb_prop in Hrc. destruct Hrc as (Hi & Ha).
      constructor; cbn; intros; auto; try congruence; try lia;
        try (specialize (CU holds Done); cbn in CU; lia);
        try (apply Forall_upd; [assumption|exact I]);
        try (specialize (CU is_breplay Done); cbn in CU; try specialize (G9 H); lia).
      repeat split; auto. destruct (idle_since s); [discriminate|discriminate].
    + constructor; cbn; intros; auto; try congruence;
        try (specialize (CU holds Done); cbn in CU; lia);
        try (apply Forall_upd; [assumption|exact I]);
        try (specialize (CU is_breplay Done); cbn in CU; try specialize (G9 H); lia).
      all: try (destruct (G7 H) as (? & ? & ?); repeat split; auto); try lia.
  - (* BReplay *)
    destruct (run_workflow s) as [s1 ok] eqn:Hrw. destruct ok.
    + apply run_workflow_ok in Hrw. destruct Hrw as (Hl & ->). inv_some H.
      constructor; cbn; intros; auto; try congruence; try lia;
        try (specialize (CU holds Done); cbn in CU; lia);
        try (apply Forall_upd; [assumption|exact I]);
        try (constructor; [exact I|constructor]);
        try (specialize (CU is_breplay Done); cbn in CU; try specialize (G9 H); lia).
    + apply run_workflow_fail in Hrw. destruct Hrw as (Hl & ->). inv_some H.
      constructor; cbn; intros; auto; try congruence;
        try (specialize (CU holds Done); cbn in CU; lia);
        try (apply Forall_upd; [assumption|exact I]);
        try (specialize (CU is_breplay Done); cbn in CU; try specialize (G9 H); lia).
      all: try (destruct (G7 H) as (? & Hf & ?); apply G2 in Hf; contradiction).
      all: try (apply G8; specialize (CU is_mid Done); cbn in CU; lia).
  - discriminate.
Qed.

(* the engine-tick combinator *)
Lemma tick_inv s f s0 : tick s f = Some s0 ->
  exists v r k v', loops s = v :: r /\ idle_cap v = None /\ f v = (Some k, v') /\
    s0 = k (set_loops (if marked v then set_idle_since s None else s) (v' :: r)).
Proof.
  unfold tick. destruct (loops s) as [|v r]; [discriminate|].
  destruct (idle_cap v) eqn:Hc; [discriminate|].
  destruct (f v) as [[k|] v'] eqn:Hf; [|discriminate].
  intro H. injection H as <-. exists v, r, k, v'. auto.
Qed.
Lemma with_head_inv s f s0 : with_head s f = Some s0 ->
  exists v r k v', loops s = v :: r /\ f v = (Some k, v') /\ s0 = k (set_loops s (v' :: r)).
Proof.
  unfold with_head. destruct (loops s) as [|v r]; [discriminate|].
  destruct (f v) as [[k|] v'] eqn:Hf; [|discriminate].
  intro H. injection H as <-. exists v, r, k, v'. auto.
Qed.

Lemma cap_none_ok n v : idle_cap v = None -> cap_ok n v.
Proof. unfold cap_ok. intros ->. exact I. Qed.

Lemma GInv_step0 tau s a s0 : GInv s -> step0 tau s a = Some s0 -> GInv s0.
Proof.
  intros GI H. destruct a; cbn [step0] in H.
  - (* Advance *)
    destruct (Z.leb 0 dt) eqn:Hd; [|discriminate]. apply Z.leb_le in Hd. inv_some H.
    destruct GI as [G1 G2 G3 G4 G5 G6 G7 G8 G9 G10].
    constructor; cbn; auto.
    + eapply Forall_due_mono; [|exact G5]. lia.
    + eapply Forall_cap_mono; [|exact G6]. lia.
  - (* Start *)
    destruct (started s) eqn:Hs; [discriminate|]. inv_some H.
    destruct GI as [G1 G2 G3 G4 G5 G6 G7 G8 G9 G10].
    destruct (G4 Hs) as (Hl & Ht & Hr & Ha & Hrel).
    constructor; cbn; rewrite ?Ht; cbn; intros; auto; try congruence; try lia.
    constructor; [exact I|constructor].
  - (* Send *)
    destruct (started s) eqn:Hs; [|discriminate]. inv_some H.
    destruct GI as [G1 G2 G3 G4 G5 G6 G7 G8 G9 G10].
    constructor; cbn; rewrite ?count_app; cbn; intros; auto; try congruence; try lia.
    + apply Forall_app. split; [assumption|constructor; [exact I|constructor]].
    + destruct (G7 H) as (? & ? & ?). repeat split; auto. lia.
    + apply G8. lia.
    + specialize (G9 H). lia.
  - (* Task *) eapply GInv_task; eauto.
  - (* EPull *)
    apply tick_inv in H. destruct H as (v & r & k & v' & Hl & Hc & Hf & ->).
    destruct (mail v) as [|e m]; inversion Hf; subst; clear Hf.
    destruct GI as [G1 G2 G3 G4 G5 G6 G7 G8 G9 G10]. rewrite Hl in *.
    assert (Ha : active s = true) by (destruct (active s); [reflexivity|specialize (G2 eq_refl); discriminate]).
    inversion G6; subst.
    destruct (marked v); constructor; cbn; intros; auto; try congruence;
      try (constructor; [exact I|assumption]);
      try (destruct (G4 H) as (Hx & _); discriminate);
      try (destruct (G7 H) as (? & ? & ?); congruence).
  - (* EDone *)
    destruct (busy s) as [|b] eqn:Hb; [discriminate|].
    apply tick_inv in H. destruct H as (v & r & k & v' & Hl & Hc & Hf & ->).
    inversion Hf; subst; clear Hf.
    destruct GI as [G1 G2 G3 G4 G5 G6 G7 G8 G9 G10]. rewrite Hl in *.
    assert (Ha : active s = true) by (destruct (active s); [reflexivity|specialize (G2 eq_refl); discriminate]).
    inversion G6; subst.
    destruct (marked v); constructor; cbn; intros; auto; try congruence;
      try (constructor; [exact I|assumption]);
      try (destruct (G4 H) as (Hx & _); discriminate);
      try (destruct (G7 H) as (? & ? & ?); congruence).
  - (* EWake *)
    destruct is_retry; apply tick_inv in H; destruct H as (v & r & k & v' & Hl & Hc & Hf & ->);
    [destruct (retries v) as [|n]|destruct (sched v) as [|n]]; inversion Hf; subst; clear Hf;
    destruct GI as [G1 G2 G3 G4 G5 G6 G7 G8 G9 G10]; rewrite Hl in *;
    assert (Ha : active s = true) by (destruct (active s); [reflexivity|specialize (G2 eq_refl); discriminate]);
    inversion G6; subst;
    (destruct (marked v); constructor; cbn; intros; auto; try congruence;
      try (constructor; [exact I|assumption]);
      try (destruct (G4 H) as (Hx & _); discriminate);
      try (destruct (G7 H) as (? & ? & ?); congruence)).
  - (* EIdleDecide *)
    destruct (Nat.eqb (busy s) 0 && running s); [|discriminate].
    apply with_head_inv in H. destruct H as (v & r & k & v' & Hl & Hf & ->).
    destruct (idle_cap v); [discriminate|]. destruct (retries v); inversion Hf; subst; clear Hf.
    destruct GI as [G1 G2 G3 G4 G5 G6 G7 G8 G9 G10]. rewrite Hl in *.
    inversion G6; subst.
    constructor; cbn; intros; auto; try congruence;
      try (destruct (G4 H) as (Hx & _); discriminate);
      try (specialize (G2 H); discriminate).
    constructor; [unfold cap_ok; cbn; lia|assumption].
  - (* EIdleWrite *)
    apply with_head_inv in H. destruct H as (v & r & k & v' & Hl & Hf & ->).
    destruct (idle_cap v) as [t|] eqn:Hc; inversion Hf; subst; clear Hf.
    destruct GI as [G1 G2 G3 G4 G5 G6 G7 G8 G9 G10]. rewrite Hl in *.
    assert (Ha : active s = true) by (destruct (active s); [reflexivity|specialize (G2 eq_refl); discriminate]).
    inversion G6; subst.
    constructor; cbn; rewrite ?count_app; cbn; intros; auto; try congruence; try lia;
      try (destruct (G4 H) as (Hx & _); discriminate).
    all: try (apply Forall_app; split; [assumption|constructor; [exact I|constructor]]).
    all: try (constructor; [exact I|assumption]).
    all: try (destruct (G7 H) as (? & ? & ?); congruence).
    all: try (apply G8; lia).
    all: try (specialize (G9 H); lia).
  - (* EClear *)
    apply with_head_inv in H. destruct H as (v & r & k & v' & Hl & Hf & ->).
    destruct (idle_cap v) eqn:Hc; [discriminate|]. destruct (marked v); inversion Hf; subst; clear Hf.
    destruct GI as [G1 G2 G3 G4 G5 G6 G7 G8 G9 G10]. rewrite Hl in *.
    assert (Ha : active s = true) by (destruct (active s); [reflexivity|specialize (G2 eq_refl); discriminate]).
    inversion G6; subst.
    constructor; cbn; intros; auto; try congruence;
      try (constructor; [exact I|assumption]);
      try (destruct (G4 H) as (Hx & _); discriminate);
      try (destruct (G7 H) as (? & ? & ?); congruence).
  - (* EFinish *)
    destruct (busy s) as [|b] eqn:Hb; [discriminate|].
    destruct (loops s) as [|v r] eqn:Hl; [discriminate|].
    destruct (idle_cap v); [discriminate|]. inv_some H.
    destruct GI as [G1 G2 G3 G4 G5 G6 G7 G8 G9 G10]. rewrite Hl in *.
    assert (Ha : active s = true) by (destruct (active s); [reflexivity|specialize (G2 eq_refl); discriminate]).
    inversion G6; subst. cbn in G1.
    constructor; cbn; intros; auto; try congruence; try lia;
      try (destruct (G4 H) as (Hx & _); discriminate).
    all: try (destruct r; [reflexivity|cbn in G1; lia]).
    all: try (destruct (G7 H) as (? & ? & ?); congruence).
  - (* Crash *)
    inv_some H. destruct GI as [G1 G2 G3 G4 G5 G6 G7 G8 G9 G10].
    constructor; cbn; rewrite ?count_done by reflexivity; intros; auto; try congruence; try lia.
    + destruct (G4 H) as (? & Ht & ? & ? & ?). rewrite Ht. cbn. auto.
    + clear. induction (tasks s); cbn; constructor; auto. exact I.
  - (* Restart *)
    destruct (resumed s) eqn:Hr; [discriminate|].
    destruct GI as [G1 G2 G3 G4 G5 G6 G7 G8 G9 G10].
    destruct (running s && match idle_since s with None => true | Some _ => false end && negb (active s)) eqn:Hc;
      inv_some H.
    + apply andb_prop in Hc. destruct Hc as (Hc & Hna). apply andb_prop in Hc. destruct Hc as (Hrun & Hi).
      constructor; cbn; rewrite ?count_app; cbn; intros; auto; try congruence; try lia.
      * destruct (G4 H) as (? & ? & ? & ? & ?). congruence.
      * apply Forall_app. split; [assumption|constructor; [exact I|constructor]].
      * destruct (G7 H) as (? & ? & ?). destruct (idle_since s); [discriminate|contradiction].
      * apply G8. lia.
      * specialize (G9 Hr). lia.
    + constructor; cbn; intros; auto; try congruence.
Qed.

Lemma GInv_step tau s a s' : GInv s -> step tau s a = Some s' -> GInv s'.
Proof.
  intros GI H. apply step_split in H. destruct H as (s0 & H0 & ->).
  pose proof (GInv_step0 _ _ _ _ GI H0) as [G1 G2 G3 G4 G5 G6 G7 G8 G9 G10].
  constructor; cbn; auto.
Qed.

Lemma GInv_run tau : forall tr s s', GInv s -> run tau s tr = Some s' -> GInv s'.
Proof.
  induction tr as [|a r IH]; cbn; intros s s' GI H.
  - injection H as <-. exact GI.
  - destruct (step tau s a) as [s1|] eqn:Hs; [|discriminate]. eapply IH; [|exact H]. eapply GInv_step; eauto.
Qed.

Theorem reachable_GInv tau tr s : run tau init tr = Some s -> GInv s.
Proof. apply GInv_run. apply GInv_init. Qed.

(* ---------- invariants that need "no reload/startup race so far" ---------- *)
Definition is_reloaded (p : pc) : bool := match p with SReloaded _ => true | _ => false end.

Record NK (s : st) : Prop := {
  k_reloading : (0 < count is_reloading (tasks s))%nat -> active s = false ;
  k_breplay : (0 < count is_breplay (tasks s))%nat -> active s = false /\ idle_since s = None ;
  k_live : running s = true -> active s = true -> loops s <> [] ;
  k_clean : guard_hits (g s) = 0%nat /\ undeliv (g s) = [] /\ misfailed (g s) = 0%nat ;
  k_owner : (reloads (g s) <= 1)%nat /\ (active s = false -> reloads (g s) = 0%nat) ;
  k_marked : forall v r, loops s = v :: r -> marked v = true -> busy s = 0%nat /\ retries v = 0%nat ;
  k_cap : forall v r, loops s = v :: r -> idle_cap v <> None -> marked v = true ;
  k_mark : active s = true -> idle_since s <> None -> count is_reloaded (tasks s) = 0%nat ->
           exists v, loops s = [v] /\ marked v = true ;
  k_relbusy : rel_busy (g s) = 0%nat ;
  k_lostretries : lost_retries (g s) = 0%nat }.

Lemma NK_init : NK init.
Proof. constructor; cbn; intros; auto; try lia; try discriminate; try congruence. Qed.

Lemma race_now_false s : race_now s = false ->
  count is_reloading (tasks s) = 0%nat \/ count is_breplay (tasks s) = 0%nat.
Proof.
  unfold race_now. intro H. apply andb_false_iff in H. destruct H as [H|H]; apply existsb_count0 in H; auto.
Qed.

Lemma reloaded_holds p : is_reloaded p = true -> holds p = true.
Proof. destruct p; cbn; congruence. Qed.
Lemma reloading_holds p : is_reloading p = true -> holds p = true.
Proof. destruct p; cbn; congruence. Qed.

Lemma NK_task tau s i s0 : GInv s -> NK s -> race_now s = false -> task_step tau s i = Some s0 -> NK s0.
Proof.
  intros [G1 G2 G3 G4 G5 G6 G7 G8 G9 G10] [K1 K2 K3 K4 K5 KV KC KU KR KL] Hrace H. unfold task_step in H.
  destruct (nth_error (tasks s) i) as [p|] eqn:Hn; [|discriminate].
  pose proof (fun f p' => count_upd f _ _ p' _ Hn) as CU.
  pose proof (count_le is_mid holds (tasks s) holds_mid) as Hmh.
  pose proof (count_le is_reloaded holds (tasks s) reloaded_holds) as Hrh.
  pose proof (count_le is_reloading holds (tasks s) reloading_holds) as Hgh.
  destruct K4 as (K4a & K4b & K4c). destruct K5 as (K5a & K5b).
  destruct p.
  - (* SWant *)
    destruct (lock_free s) eqn:Hlf; [|discriminate]. apply lock_free_count in Hlf. inv_some H.
    remember (active s) as a eqn:Ha in |- *. symmetry in Ha.
    destruct a; constructor; cbn; intros; auto; try congruence.
    all: try (specialize (CU is_reloading (SHold e)); cbn in CU; lia).
    all: try (apply K2; specialize (CU is_breplay (SHold e)); cbn in CU; lia).
    all: try (apply K2; specialize (CU is_breplay (SReloading e)); cbn in CU; lia).
    all: try (apply KU; auto; specialize (CU is_reloaded (SHold e)); cbn in CU; lia).
    all: eauto.
  - (* SHold *)
    inv_some H. constructor; cbn; intros; auto; try congruence.
    all: try (apply K1; specialize (CU is_reloading (SCleared e)); cbn in CU; lia).
    all: try (destruct K2 as (? & ?); [specialize (CU is_breplay (SCleared e)); cbn in CU; lia|auto]).
    all: eauto.
  - (* SReloading *)
    assert (Ha : active s = false) by (apply K1; eapply count_nth_pos; eauto).
    destruct (run_workflow s) as [s1 ok] eqn:Hrw. destruct ok.
    + apply run_workflow_ok in Hrw. destruct Hrw as (Hl & ->). inv_some H.
      assert (Hb0 : count is_breplay (tasks s) = 0%nat).
      { destruct (race_now_false _ Hrace) as [Hc|Hc]; [|exact Hc].
        pose proof (count_nth_pos is_reloading _ _ _ Hn eq_refl). lia. }
      assert (Hg1 : count is_reloading (tasks s) = 1%nat).
      { pose proof (count_nth_pos is_reloading _ _ _ Hn eq_refl).
        pose proof (count_nth_pos holds _ _ _ Hn eq_refl). lia. }
      constructor; cbn; intros; auto; try congruence; try lia.
      all: try (specialize (CU is_reloading (SReloaded e)); cbn in CU; lia).
      all: try (specialize (CU is_breplay (SReloaded e)); cbn in CU; lia).
      all: try (specialize (CU is_reloaded (SReloaded e)); cbn in CU; lia).
      * split; [specialize (K5b Ha); lia|discriminate].
      * inversion H; subst. cbn in H0. discriminate.
      * inversion H; subst. cbn in H0. congruence.
    + apply run_workflow_fail in Hrw. destruct Hrw as (Hl & _). specialize (G2 Ha). contradiction.
  - (* SReloaded *)
    inv_some H. constructor; cbn; intros; auto; try congruence.
    all: try (apply K1; specialize (CU is_reloading (SCleared e)); cbn in CU; lia).
    all: try (destruct K2 as (? & ?); [specialize (CU is_breplay (SCleared e)); cbn in CU; lia|auto]).
    all: eauto.
  - (* SCleared *)
    inv_some H.
    assert (Hact : active s = true) by (apply G8; eapply count_nth_pos; eauto).
    unfold put. destruct (loops s) as [|v r] eqn:Hl.
    + destruct (running s) eqn:Hr; [exfalso; apply (K3 eq_refl Hact); reflexivity|].
      constructor; cbn; rewrite ?Hl; intros; auto; try congruence.
      all: try (apply K1; specialize (CU is_reloading Done); cbn in CU; lia).
      all: try (apply K2; specialize (CU is_breplay Done); cbn in CU; lia).
      all: try (apply KU; auto; specialize (CU is_reloaded Done); cbn in CU; lia).
    + constructor; cbn; rewrite ?Hl; intros; auto; try congruence.
      all: try (apply K1; specialize (CU is_reloading Done); cbn in CU; lia).
      all: try (apply K2; specialize (CU is_breplay Done); cbn in CU; lia).
      * inversion H; subst. cbn in *. exact (KV _ _ eq_refl H0).
      * inversion H; subst. cbn in *. exact (KC _ _ eq_refl H0).
      * destruct KU as (v0 & Hv0 & Hm0); auto.
        { specialize (CU is_reloaded Done); cbn in CU; lia. }
        inversion Hv0; subst. eexists. split; [reflexivity|]. cbn. exact Hm0.
  - (* RSleep *)
    destruct (Z.leb due (now s)); [|discriminate]. inv_some H.
    constructor; cbn; intros; auto; try congruence.
    all: try (apply K1; specialize (CU is_reloading (RWant due)); cbn in CU; lia).
    all: try (apply K2; specialize (CU is_breplay (RWant due)); cbn in CU; lia).
    all: try (apply KU; auto; specialize (CU is_reloaded (RWant due)); cbn in CU; lia).
    all: eauto.
  - (* RWant *)
    destruct (lock_free s); [|discriminate]. inv_some H.
    constructor; cbn; intros; auto; try congruence.
    all: try (apply K1; specialize (CU is_reloading (RHold due)); cbn in CU; lia).
    all: try (apply K2; specialize (CU is_breplay (RHold due)); cbn in CU; lia).
    all: try (apply KU; auto; specialize (CU is_reloaded (RHold due)); cbn in CU; lia).
    all: eauto.
  - (* RHold *)
    inv_some H.
    assert (Hh : count holds (tasks s) = 1%nat).
    { pose proof (count_nth_pos holds _ _ _ Hn eq_refl). lia. }
    assert (Hr0 : count is_reloaded (tasks s) = 0%nat).
    { destruct (count is_reloaded (tasks s)) eqn:E; [reflexivity|]. exfalso.
      (* the holder is this RHold task; a SReloaded task would be a second holder *)
      clear - Hn Hh E.
      revert i Hn Hh E. induction (tasks s) as [|q t IH]; intros [|i] Hn Hh E; cbn in *; try discriminate.
      - injection Hn as ->. cbn in *. pose proof (count_le is_reloaded holds t reloaded_holds). lia.
      - destruct q; cbn in *; try (eapply IH; eauto; fail); try lia;
          pose proof (count_nth_pos holds _ _ _ Hn eq_refl); lia. }
    destruct (release_check tau s) eqn:Hrc.
    + unfold release_check in Hrc. apply andb_prop in Hrc. destruct Hrc as (Hi & Ha).
      assert (Hidle : idle_since s <> None) by (destruct (idle_since s); [discriminate|discriminate]).
      destruct (KU Ha Hidle Hr0) as (v & Hv & Hm).
      destruct (KV _ _ Hv Hm) as (Hb & Hrt).
      assert (Hnb : has_busy s = false).
      { unfold has_busy. rewrite Hb, Hv. cbn. rewrite Hrt. reflexivity. }
      assert (Hsr : sum_retries (loops s) = 0%nat) by (rewrite Hv; cbn; lia).
      constructor; cbn; rewrite ?Hnb, ?Hsr; intros; auto; try congruence; try lia.
      all: try (destruct K2 as (? & ?); [specialize (CU is_breplay Done); cbn in CU; lia|congruence]).
    + constructor; cbn; intros; auto; try congruence.
      all: try (apply K1; specialize (CU is_reloading Done); cbn in CU; lia).
      all: try (apply K2; specialize (CU is_breplay Done); cbn in CU; lia).
      all: try (apply KU; auto; specialize (CU is_reloaded Done); cbn in CU; lia).
      all: eauto.
  - (* BReplay *)
    destruct K2 as (Ha & Hi); [eapply count_nth_pos; eauto|].
    destruct (run_workflow s) as [s1 ok] eqn:Hrw. destruct ok.
    + apply run_workflow_ok in Hrw. destruct Hrw as (Hl & ->). inv_some H.
      assert (Hg0 : count is_reloading (tasks s) = 0%nat).
      { destruct (race_now_false _ Hrace) as [Hc|Hc]; [exact Hc|].
        pose proof (count_nth_pos is_breplay _ _ _ Hn eq_refl). lia. }
      constructor; cbn; intros; auto; try congruence; try lia.
      all: try (specialize (CU is_reloading Done); cbn in CU; lia).
      all: try (pose proof (count_nth_pos is_breplay _ _ _ Hn eq_refl);
                specialize (CU is_breplay Done); cbn in CU; lia).
      * split; [specialize (K5b Ha); lia|discriminate].
      * inversion H; subst. cbn in H0. discriminate.
      * inversion H; subst. cbn in H0. congruence.
    + apply run_workflow_fail in Hrw. destruct Hrw as (Hl & _). specialize (G2 Ha). contradiction.
  - discriminate.
Qed.

Lemma loops_active s v r : GInv s -> loops s = v :: r -> active s = true /\ r = [].
Proof.
  intros [G1 G2 _ _ _ _ _ _ _ _] Hl. rewrite Hl in *. split.
  - destruct (active s); [reflexivity|specialize (G2 eq_refl); discriminate].
  - destruct r; [reflexivity|cbn in G1; lia].
Qed.

Lemma NK_step0 tau s a s0 : GInv s -> NK s -> race_now s = false -> step0 tau s a = Some s0 -> NK s0.
Proof.
  intros GI NKs Hrace H. destruct a; cbn [step0] in H.
  - (* Advance *)
    destruct (Z.leb 0 dt); [|discriminate]. inv_some H.
    destruct NKs as [K1 K2 K3 K4 K5 KV KC KU KR KL]. constructor; cbn; auto.
  - (* Start *)
    destruct (started s) eqn:Hs; [discriminate|]. inv_some H.
    destruct GI as [G1 G2 G3 G4 G5 G6 G7 G8 G9 G10]. destruct (G4 Hs) as (Hl & Ht & Hr & Ha & Hrel).
    destruct NKs as [K1 K2 K3 K4 K5 KV KC KU KR KL]. destruct K5 as (K5a & K5b).
    constructor; cbn; rewrite ?Ht; cbn; intros; auto; try congruence; try lia.
    all: try (inversion H; subst; cbn in *; congruence).
    all: try (split; [specialize (K5b Ha); lia|discriminate]).
  - (* Send *)
    destruct (started s); [|discriminate]. inv_some H.
    destruct NKs as [K1 K2 K3 K4 K5 KV KC KU KR KL].
    constructor; cbn; rewrite ?count_app; cbn; intros; auto.
    all: try (apply K1; lia).
    all: try (apply K2; lia).
    all: try (apply KU; auto; lia).
    all: eauto.
  - eapply NK_task; eauto.
  - (* EPull *)
    apply tick_inv in H. destruct H as (v & r & k & v' & Hl & Hc & Hf & ->).
    destruct (loops_active _ _ _ GI Hl) as (Ha & ->).
    destruct (mail v) as [|e m]; inversion Hf; subst; clear Hf.
    destruct NKs as [K1 K2 K3 K4 K5 KV KC KU KR KL].
    destruct (marked v) eqn:Hm; constructor; cbn; intros; auto; try congruence.
    all: try (inversion H; subst; cbn in *; congruence).
    all: try (destruct (K2 H); congruence).
    destruct (KU H H0 H1) as (v0 & Hv0 & Hm0). rewrite Hl in Hv0. inversion Hv0; subst. congruence.
  - (* EDone *)
    destruct (busy s) as [|b] eqn:Hb; [discriminate|].
    apply tick_inv in H. destruct H as (v & r & k & v' & Hl & Hc & Hf & ->).
    destruct (loops_active _ _ _ GI Hl) as (Ha & ->).
    inversion Hf; subst; clear Hf.
    destruct NKs as [K1 K2 K3 K4 K5 KV KC KU KR KL].
    destruct (marked v) eqn:Hm; constructor; cbn; intros; auto; try congruence.
    all: try (inversion H; subst; cbn in *; congruence).
    all: try (destruct (K2 H); congruence).
    destruct (KU H H0 H1) as (v0 & Hv0 & Hm0). rewrite Hl in Hv0. inversion Hv0; subst. congruence.
  - (* EWake *)
    destruct is_retry; apply tick_inv in H; destruct H as (v & r & k & v' & Hl & Hc & Hf & ->);
    destruct (loops_active _ _ _ GI Hl) as (Ha & ->);
    [destruct (retries v) as [|n]|destruct (sched v) as [|n]]; inversion Hf; subst; clear Hf;
    destruct NKs as [K1 K2 K3 K4 K5 KV KC KU KR KL];
    (destruct (marked v) eqn:Hm; constructor; cbn; intros; auto; try congruence;
     try (inversion H; subst; cbn in *; congruence);
     try (destruct (K2 H); congruence);
     try (destruct (KU H H0 H1) as (v0 & Hv0 & Hm0); rewrite Hl in Hv0; inversion Hv0; subst; congruence)).
  - (* EIdleDecide *)
    destruct (Nat.eqb (busy s) 0 && running s) eqn:Hg; [|discriminate].
    apply andb_prop in Hg. destruct Hg as (Hb & Hrun). apply Nat.eqb_eq in Hb.
    apply with_head_inv in H. destruct H as (v & r & k & v' & Hl & Hf & ->).
    destruct (loops_active _ _ _ GI Hl) as (Ha & ->).
    destruct (idle_cap v); [discriminate|]. destruct (retries v) eqn:Hrt; inversion Hf; subst; clear Hf.
    destruct NKs as [K1 K2 K3 K4 K5 KV KC KU KR KL].
    constructor; cbn; intros; auto; try congruence.
    + inversion H; subst. cbn. auto.
    + inversion H; subst. reflexivity.
    + eexists. split; reflexivity.
  - (* EIdleWrite *)
    apply with_head_inv in H. destruct H as (v & r & k & v' & Hl & Hf & ->).
    destruct (loops_active _ _ _ GI Hl) as (Ha & ->).
    destruct (idle_cap v) as [t|] eqn:Hc; inversion Hf; subst; clear Hf.
    destruct NKs as [K1 K2 K3 K4 K5 KV KC KU KR KL].
    assert (Hm : marked v = true) by (eapply KC; [exact Hl|congruence]).
    constructor; cbn; rewrite ?count_app; cbn; intros; auto; try congruence.
    + apply K1. lia.
    + destruct K2; [lia|congruence].
    + inversion H; subst. cbn in *. exact (KV _ _ Hl H0).
    + inversion H; subst. cbn in *. congruence.
    + eexists. split; [reflexivity|]. exact Hm.
  - (* EClear *)
    apply with_head_inv in H. destruct H as (v & r & k & v' & Hl & Hf & ->).
    destruct (loops_active _ _ _ GI Hl) as (Ha & ->).
    destruct (idle_cap v) eqn:Hc; [discriminate|]. destruct (marked v) eqn:Hm; inversion Hf; subst; clear Hf.
    destruct NKs as [K1 K2 K3 K4 K5 KV KC KU KR KL].
    constructor; cbn; intros; auto; try congruence.
    all: try (inversion H; subst; cbn in *; congruence).
    all: try (destruct (K2 H); congruence).
  - (* EFinish *)
    destruct (busy s) as [|b] eqn:Hb; [discriminate|].
    destruct (loops s) as [|v r] eqn:Hl; [discriminate|].
    destruct (idle_cap v) eqn:Hc; [discriminate|]. inv_some H.
    destruct (loops_active _ _ _ GI Hl) as (Ha & ->).
    destruct NKs as [K1 K2 K3 K4 K5 KV KC KU KR KL].
    constructor; cbn; intros; auto; try congruence.
    + destruct (KU H H0 H1) as (v0 & Hv0 & Hm0).
      destruct (KV _ _ Hv0 Hm0). congruence.
  - (* Crash *)
    inv_some H. destruct NKs as [K1 K2 K3 K4 K5 KV KC KU KR KL].
    constructor; cbn; rewrite ?count_done by reflexivity; intros; auto; try congruence; try lia.
  - (* Restart *)
    destruct (resumed s); [discriminate|].
    destruct NKs as [K1 K2 K3 K4 K5 KV KC KU KR KL].
    destruct (running s && match idle_since s with None => true | Some _ => false end && negb (active s)) eqn:Hc;
      inv_some H.
    + apply andb_prop in Hc. destruct Hc as (Hc & Hna). apply andb_prop in Hc. destruct Hc as (Hrun & Hi).
      assert (Ha : active s = false) by (destruct (active s); [discriminate|reflexivity]).
      assert (Hi' : idle_since s = None) by (destruct (idle_since s); [discriminate|reflexivity]).
      constructor; cbn; rewrite ?count_app; cbn; intros; auto; try congruence.
      all: try (apply K1; lia).
      all: eauto.
    + constructor; cbn; intros; auto; eauto.
Qed.

Lemma step0_raced tau s a s0 : step0 tau s a = Some s0 -> raced (g s0) = raced (g s).
Proof.
  intro H. destruct a; cbn [step0] in H.
  - destruct (Z.leb 0 dt); [|discriminate]. inv_some H. reflexivity.
  - destruct (started s); [discriminate|]. inv_some H. reflexivity.
  - destruct (started s); [|discriminate]. inv_some H. reflexivity.
  - unfold task_step in H. destruct (nth_error (tasks s) i) as [p|]; [|discriminate].
    destruct p; try discriminate;
      try (destruct (lock_free s); [|discriminate]); try (destruct (Z.leb due (now s)); [|discriminate]);
      try (inv_some H; reflexivity).
    + unfold run_workflow in H. destruct (loops s); inv_some H; reflexivity.
    + inv_some H. unfold put. destruct (loops s); [destruct (running s)|]; reflexivity.
    + inv_some H. destruct (release_check tau s); reflexivity.
    + unfold run_workflow in H. destruct (loops s); inv_some H; reflexivity.
  - apply tick_inv in H. destruct H as (v & r & k & v' & Hl & Hc & Hf & ->).
    destruct (mail v); inversion Hf; subst. destruct (marked v); reflexivity.
  - destruct (busy s); [discriminate|]. apply tick_inv in H. destruct H as (v & r & k & v' & Hl & Hc & Hf & ->).
    inversion Hf; subst. destruct (marked v); reflexivity.
  - destruct is_retry; apply tick_inv in H; destruct H as (v & r & k & v' & Hl & Hc & Hf & ->);
    [destruct (retries v)|destruct (sched v)]; inversion Hf; subst; destruct (marked v); reflexivity.
  - destruct (Nat.eqb (busy s) 0 && running s); [|discriminate].
    apply with_head_inv in H. destruct H as (v & r & k & v' & Hl & Hf & ->).
    destruct (idle_cap v); [discriminate|]. destruct (retries v); inversion Hf; subst. reflexivity.
  - apply with_head_inv in H. destruct H as (v & r & k & v' & Hl & Hf & ->).
    destruct (idle_cap v); inversion Hf; subst. reflexivity.
  - apply with_head_inv in H. destruct H as (v & r & k & v' & Hl & Hf & ->).
    destruct (idle_cap v); [discriminate|]. destruct (marked v); inversion Hf; subst. reflexivity.
  - destruct (busy s); [discriminate|]. destruct (loops s) as [|v r]; [discriminate|].
    destruct (idle_cap v); [discriminate|]. inv_some H. reflexivity.
  - inv_some H. reflexivity.
  - destruct (resumed s); [discriminate|].
    destruct (running s && match idle_since s with None => true | Some _ => false end && negb (active s));
      inv_some H; reflexivity.
Qed.

(* the combined invariant carried along a run *)
Definition RInv (s : st) : Prop := race_now s = true -> raced (g s) = true.
Definition Inv (s : st) : Prop := GInv s /\ RInv s /\ (raced (g s) = false -> NK s).

Lemma Inv_init : Inv init.
Proof. split; [apply GInv_init|]. split; [intro H; discriminate|]. intros _. apply NK_init. Qed.

Lemma NK_set_raced s b : NK s -> NK (set_raced s b).
Proof. intros [K1 K2 K3 K4 K5 KV KC KU KR KL]. constructor; cbn; auto. Qed.

Lemma Inv_step tau s a s' : Inv s -> step tau s a = Some s' -> Inv s'.
Proof.
  intros (GI & RI & NI) H. split; [eapply GInv_step; eauto|].
  apply step_split in H. destruct H as (s0 & H0 & ->). split.
  - unfold RInv. cbn. unfold race_now. cbn. fold (race_now s0). intros ->. apply orb_true_r.
  - cbn. intro Hr. apply orb_false_iff in Hr. destruct Hr as (Hr0 & Hrn).
    rewrite (step0_raced _ _ _ _ H0) in Hr0.
    apply NK_set_raced. eapply NK_step0; eauto.
    destruct (race_now s) eqn:E; [|reflexivity]. specialize (RI E). congruence.
Qed.

Lemma Inv_run tau : forall tr s s', Inv s -> run tau s tr = Some s' -> Inv s'.
Proof.
  induction tr as [|a r IH]; cbn; intros s s' I H.
  - injection H as <-. exact I.
  - destruct (step tau s a) as [s1|] eqn:Hs; [|discriminate]. eapply IH; [|exact H]. eapply Inv_step; eauto.
Qed.

Theorem reachable_Inv tau tr s : run tau init tr = Some s -> Inv s.
Proof. apply Inv_run. apply Inv_init. Qed.

(* ---------- C36: a marked-idle run in memory always has a releaser that will fire ---------- *)
Definition releaser (due : Z) (p : pc) : Prop := p = RSleep due \/ p = RWant due \/ p = RHold due.
Definition TP (tau : Z) (s : st) : Prop :=
  active s = true -> forall t, idle_since s = Some t -> count is_reloaded (tasks s) = 0%nat ->
  exists due p, In p (tasks s) /\ releaser due p /\ t + tau <= due.

Lemma releaser_not p due q : releaser due p -> (forall d, q <> RSleep d) -> (forall d, q <> RWant d) ->
  (forall d, q <> RHold d) -> p <> q.
Proof.
  intros [ -> | [ -> | -> ] ] H1 H2 H3 E; subst; [eapply H1|eapply H2|eapply H3]; reflexivity.
Qed.

Lemma TP_step0 tau s a s0 : GInv s -> NK s -> race_now s = false -> TP tau s ->
  step0 tau s a = Some s0 -> TP tau s0.
Proof.
  intros GI NKs Hrace T H. unfold TP in *. destruct a; cbn [step0] in H.
  - destruct (Z.leb 0 dt); [|discriminate]. inv_some H. cbn. exact T.
  - destruct (started s); [discriminate|]. inv_some H. cbn. intros _ t Ht. discriminate.
  - destruct (started s); [|discriminate]. inv_some H. cbn. rewrite count_app. cbn. intros Ha t Ht Hc.
    destruct (T Ha t Ht) as (due & p & Hin & Hr & Hle); [lia|].
    exists due, p. split; [apply in_or_app; left; exact Hin|auto].
  - (* Task *)
    unfold task_step in H. destruct (nth_error (tasks s) i) as [q|] eqn:Hn; [|discriminate].
    pose proof (fun f p' => count_upd f _ _ p' _ Hn) as CU.
    destruct q.
    + destruct (lock_free s); [|discriminate]. inv_some H. cbn. intros Ha t Ht Hc.
      destruct (T Ha t Ht) as (due & p & Hin & Hr & Hle).
      { specialize (CU is_reloaded (if active s then SHold e else SReloading e)).
        destruct (active s); cbn in CU; lia. }
      exists due, p. split; [|auto]. eapply in_upd_other; eauto.
      eapply releaser_not; eauto; discriminate.
    + inv_some H. cbn. intros _ t Ht. discriminate.
    + destruct (run_workflow s) as [s1 ok] eqn:Hrw. destruct ok.
      * apply run_workflow_ok in Hrw. destruct Hrw as (Hl & ->). inv_some H. cbn. intros _ t Ht Hc.
        specialize (CU is_reloaded (SReloaded e)). cbn in CU. lia.
      * apply run_workflow_fail in Hrw. destruct Hrw as (Hl & ->). inv_some H. cbn. intros _ t Ht Hc.
        destruct NKs as [K1 _ _ _ _ _ _ _ _ _]. destruct GI as [_ G2 _ _ _ _ _ _ _ _].
        assert (Ha : active s = false) by (apply K1; eapply count_nth_pos; eauto).
        specialize (G2 Ha). contradiction.
    + inv_some H. cbn. intros _ t Ht. discriminate.
    + inv_some H. unfold put. destruct (loops s) as [|v r]; [destruct (running s)|]; cbn; intros Ha t Ht Hc;
      (destruct (T Ha t Ht) as (due & p & Hin & Hr & Hle);
       [specialize (CU is_reloaded Done); cbn in CU; lia|];
       exists due, p; split; [|auto]; eapply in_upd_other; eauto;
       eapply releaser_not; eauto; discriminate).
    + destruct (Z.leb due (now s)); [|discriminate]. inv_some H. cbn. intros Ha t Ht Hc.
      destruct (T Ha t Ht) as (due0 & p & Hin & Hr & Hle).
      { specialize (CU is_reloaded (RWant due)). cbn in CU. lia. }
      destruct (Z.eq_dec due0 due) as [->|Hne].
      * exists due, (RWant due). split; [eapply in_upd_self; eauto|]. split; [right; left; reflexivity|exact Hle].
      * exists due0, p. split; [|auto]. eapply in_upd_other; eauto.
        destruct Hr as [ -> | [ -> | -> ] ]; congruence.
    + destruct (lock_free s); [|discriminate]. inv_some H. cbn. intros Ha t Ht Hc.
      destruct (T Ha t Ht) as (due0 & p & Hin & Hr & Hle).
      { specialize (CU is_reloaded (RHold due)). cbn in CU. lia. }
      destruct (Z.eq_dec due0 due) as [->|Hne].
      * exists due, (RHold due). split; [eapply in_upd_self; eauto|]. split; [right; right; reflexivity|exact Hle].
      * exists due0, p. split; [|auto]. eapply in_upd_other; eauto.
        destruct Hr as [ -> | [ -> | -> ] ]; congruence.
    + inv_some H. destruct (release_check tau s) eqn:Hrc.
      * cbn. intros Ha. discriminate.
      * cbn. intros Ha t Ht Hc.
        destruct (T Ha t Ht) as (due0 & p & Hin & Hr & Hle).
        { specialize (CU is_reloaded Done). cbn in CU. lia. }
        assert (Hd : due <= now s).
        { destruct GI as [_ _ _ _ G5 _ _ _ _ _]. rewrite Forall_forall in G5.
          exact (G5 _ (nth_error_In _ _ Hn)). }
        unfold release_check in Hrc. rewrite Ht, Ha in Hrc. rewrite andb_true_r in Hrc.
        apply Z.leb_gt in Hrc.
        exists due0, p. split; [|auto]. eapply in_upd_other; eauto.
        destruct Hr as [ -> | [ -> | -> ] ]; try discriminate. intro E. injection E as ->. lia.
    + destruct NKs as [_ K2 _ _ _ _ _ _ _ _].
      destruct K2 as (Ha0 & Hi0); [eapply count_nth_pos; eauto|].
      destruct (run_workflow s) as [s1 ok] eqn:Hrw. destruct ok.
      * apply run_workflow_ok in Hrw. destruct Hrw as (Hl & ->). inv_some H. cbn. intros _ t Ht. congruence.
      * apply run_workflow_fail in Hrw. destruct Hrw as (Hl & ->). inv_some H. cbn. intros _ t Ht. congruence.
    + discriminate.
  - apply tick_inv in H. destruct H as (v & r & k & v' & Hl & Hc & Hf & ->).
    destruct (mail v); inversion Hf; subst. destruct (marked v); cbn; [intros _ t Ht; discriminate|exact T].
  - destruct (busy s); [discriminate|]. apply tick_inv in H. destruct H as (v & r & k & v' & Hl & Hc & Hf & ->).
    inversion Hf; subst. destruct (marked v); cbn; [intros _ t Ht; discriminate|exact T].
  - destruct is_retry; apply tick_inv in H; destruct H as (v & r & k & v' & Hl & Hc & Hf & ->);
    [destruct (retries v)|destruct (sched v)]; inversion Hf; subst;
    (destruct (marked v); cbn; [intros _ t Ht; discriminate|exact T]).
  - destruct (Nat.eqb (busy s) 0 && running s); [|discriminate].
    apply with_head_inv in H. destruct H as (v & r & k & v' & Hl & Hf & ->).
    destruct (idle_cap v); [discriminate|]. destruct (retries v); inversion Hf; subst. cbn. exact T.
  - apply with_head_inv in H. destruct H as (v & r & k & v' & Hl & Hf & ->).
    destruct (idle_cap v) as [t0|] eqn:Hc; inversion Hf; subst. cbn. intros Ha t Ht _. injection Ht as ->.
    exists (now s + tau), (RSleep (now s + tau)). split; [apply in_or_app; right; left; reflexivity|].
    split; [left; reflexivity|].
    destruct GI as [_ _ _ _ _ G6 _ _ _ _]. rewrite Hl in G6. inversion G6; subst.
    unfold cap_ok in H1. rewrite Hc in H1. lia.
  - apply with_head_inv in H. destruct H as (v & r & k & v' & Hl & Hf & ->).
    destruct (idle_cap v); [discriminate|]. destruct (marked v); inversion Hf; subst. cbn. intros _ t Ht. discriminate.
  - destruct (busy s); [discriminate|]. destruct (loops s) as [|v r]; [discriminate|].
    destruct (idle_cap v); [discriminate|]. inv_some H. cbn. exact T.
  - inv_some H. cbn. intros Ha. discriminate.
  - destruct (resumed s); [discriminate|].
    destruct (running s && match idle_since s with None => true | Some _ => false end && negb (active s));
      inv_some H; cbn; [|exact T].
    rewrite count_app. cbn. intros Ha t Ht Hc.
    destruct (T Ha t Ht) as (due & p & Hin & Hr & Hle); [lia|].
    exists due, p. split; [apply in_or_app; left; exact Hin|auto].
Qed.

Lemma TP_run tau : forall tr s s', Inv s -> TP tau s -> run tau s tr = Some s' -> raced (g s') = false -> TP tau s'.
Proof.
  induction tr as [|a r IH]; cbn; intros s s' I T H Hr.
  - injection H as <-. exact T.
  - destruct (step tau s a) as [s1|] eqn:Hs; [|discriminate].
    pose proof (Inv_step _ _ _ _ I Hs) as I1.
    assert (Hr1 : raced (g s1) = false).
    { (* raced is sticky *)
      clear - H Hr. revert s1 H. induction r as [|b r IH]; cbn; intros s1 H.
      - injection H as <-. exact Hr.
      - destruct (step tau s1 b) as [s2|] eqn:Hs; [|discriminate]. specialize (IH _ H).
        apply step_split in Hs. destruct Hs as (s0 & H0 & ->). cbn in IH. apply orb_false_iff in IH.
        destruct IH as (IH & _). rewrite (step0_raced _ _ _ _ H0) in IH. exact IH. }
    eapply IH; [exact I1| |exact H|exact Hr].
    apply step_split in Hs. destruct Hs as (s0 & H0 & ->). cbn in Hr1. apply orb_false_iff in Hr1.
    destruct Hr1 as (Hr0 & Hrn). rewrite (step0_raced _ _ _ _ H0) in Hr0.
    destruct I as (GI & RI & NI).
    assert (Hrace : race_now s = false).
    { destruct (race_now s) eqn:E; [|reflexivity]. specialize (RI E). congruence. }
    pose proof (TP_step0 _ _ _ _ GI (NI Hr0) Hrace T H0) as T0.
    unfold TP in *. cbn. exact T0.
Qed.

Lemma TP_init tau : TP tau init.
Proof. unfold TP. cbn. discriminate. Qed.

(* the releaser fires: when its check runs while the mark it was spawned for is still there *)
Lemma release_fires tau s i due t :
  nth_error (tasks s) i = Some (RHold due) -> idle_since s = Some t -> t + tau <= due -> due <= now s ->
  active s = true ->
  exists s', step tau s (Task i) = Some s' /\ active s' = false /\ loops s' = [] /\
             idle_since s' = Some t /\ released (g s') = true.
Proof.
  intros Hn Hi Hle Hd Ha. unfold step. cbn [step0]. unfold task_step. rewrite Hn.
  assert (Hrc : release_check tau s = true).
  { unfold release_check. rewrite Hi, Ha. rewrite andb_true_r. apply Z.leb_le. lia. }
  rewrite Hrc. eexists. split; [reflexivity|]. cbn. auto.
Qed.

(* ---------- partial theorem: truthful idle marks make every release safe ---------- *)
Definition nowork (s : st) : Prop :=
  busy s = 0%nat /\ all_mail (loops s) = [] /\ sum_sched (loops s) = 0%nat /\ sum_retries (loops s) = 0%nat.

Lemma has_work_false s : has_work s = false <-> nowork s.
Proof.
  unfold has_work, nowork. split.
  - intro H. apply orb_false_iff in H. destruct H as (Hb & He).
    apply negb_false_iff in Hb. apply Nat.eqb_eq in Hb. split; [exact Hb|].
    induction (loops s) as [|v r IH]; cbn in *; [auto|].
    apply orb_false_iff in He. destruct He as (Hv & Hr). destruct (IH Hr) as (I1 & I2 & I3).
    unfold vol_work in Hv. apply orb_false_iff in Hv. destruct Hv as (Hv & Hv3).
    apply orb_false_iff in Hv. destruct Hv as (Hv1 & Hv2).
    apply negb_false_iff in Hv2, Hv3. apply Nat.eqb_eq in Hv2, Hv3.
    destruct (mail v); [|discriminate].
    fold (all_mail r); fold (sum_sched r); fold (sum_retries r). rewrite I1, I2, I3, Hv2, Hv3. auto.
  - intros (Hb & Hm & Hs & Hr). rewrite Hb. cbn.
    induction (loops s) as [|v r IH]; cbn in *; [reflexivity|].
    apply app_eq_nil in Hm. destruct Hm as (Hm1 & Hm2).
    fold (all_mail r) in Hm2. fold (sum_sched r) in Hs. fold (sum_retries r) in Hr.
    assert (sched v = 0%nat /\ sum_sched r = 0%nat) as (S1 & S2) by lia.
    assert (retries v = 0%nat /\ sum_retries r = 0%nat) as (R1 & R2) by lia.
    rewrite (IH Hm2 S2 R2). unfold vol_work. rewrite Hm1, S1, R1. reflexivity.
Qed.

Record TM (s : st) : Prop := {
  tm_mark : idle_since s <> None -> nowork s /\ count is_cleared (tasks s) = 0%nat ;
  tm_clean : rel_work (g s) = 0%nat /\ lost (g s) = [] /\ lost_timers (g s) = 0%nat /\ lost_retries (g s) = 0%nat }.

Lemma TM_init : TM init.
Proof. constructor; cbn; auto. intro H. congruence. Qed.

Lemma nowork_head s v r v' :
  loops s = v :: r -> mail v' = mail v -> sched v' = sched v -> retries v' = retries v ->
  forall s', busy s' = busy s -> loops s' = v' :: r -> nowork s -> nowork s'.
Proof.
  intros Hl Hm Hs Hr s' Hb Hl' (N1 & N2 & N3 & N4). unfold nowork. rewrite Hb, Hl' . rewrite Hl in *.
  cbn in *. rewrite Hm, Hs, Hr. auto.
Qed.

Lemma TM_step0 tau s a s0 : TM s -> truthful s a = true -> step0 tau s a = Some s0 -> TM s0.
Proof.
  intros [M C] Ht H. destruct a; cbn [step0] in H.
  - destruct (Z.leb 0 dt); [|discriminate]. inv_some H. constructor; cbn; auto.
  - destruct (started s); [discriminate|]. inv_some H. constructor; cbn; auto. intro E. congruence.
  - destruct (started s); [|discriminate]. inv_some H. constructor; cbn; auto. rewrite count_app. cbn.
    intro E. destruct (M E) as (N & Cc). split; [exact N|lia].
  - unfold task_step in H. destruct (nth_error (tasks s) i) as [q|] eqn:Hn; [|discriminate].
    pose proof (fun f p' => count_upd f _ _ p' _ Hn) as CU.
    destruct q.
    + destruct (lock_free s); [|discriminate]. inv_some H. constructor; cbn; auto.
      intro E. destruct (M E) as (N & Cc). split; [exact N|].
      specialize (CU is_cleared (if active s then SHold e else SReloading e)). destruct (active s); cbn in CU; lia.
    + inv_some H. constructor; cbn; auto. intro E. congruence.
    + unfold run_workflow in H. destruct (loops s) as [|v r] eqn:Hl; inv_some H; constructor; cbn; auto.
      * intro E. destruct (M E) as ((N1 & N2 & N3 & N4) & Cc). rewrite Hl in *. split.
        -- unfold nowork. cbn. auto.
        -- specialize (CU is_cleared (SReloaded e)). cbn in CU. lia.
      * intro E. destruct (M E) as (N & Cc). split; [exact N|].
        specialize (CU is_cleared Done). cbn in CU. lia.
    + inv_some H. constructor; cbn; auto. intro E. congruence.
    + inv_some H.
      assert (Hi : idle_since s = None).
      { destruct (idle_since s) eqn:E; [|reflexivity]. destruct M as (_ & Cc); [congruence|].
        pose proof (count_nth_pos is_cleared _ _ _ Hn eq_refl). lia. }
      unfold put. destruct (loops s) as [|v r]; [destruct (running s)|]; constructor; cbn; auto;
        intro E; congruence.
    + destruct (Z.leb due (now s)); [|discriminate]. inv_some H. constructor; cbn; auto.
      intro E. destruct (M E) as (N & Cc). split; [exact N|]. specialize (CU is_cleared (RWant due)). cbn in CU. lia.
    + destruct (lock_free s); [|discriminate]. inv_some H. constructor; cbn; auto.
      intro E. destruct (M E) as (N & Cc). split; [exact N|]. specialize (CU is_cleared (RHold due)). cbn in CU. lia.
    + inv_some H. destruct (release_check tau s) eqn:Hrc.
      * unfold release_check in Hrc. apply andb_prop in Hrc. destruct Hrc as (Hi & Ha).
        assert (E : idle_since s <> None) by (destruct (idle_since s); discriminate).
        destruct (M E) as (N & Cc). pose proof N as (N1 & N2 & N3 & N4).
        apply has_work_false in N. destruct C as (C1 & C2 & C3 & C4).
        constructor; cbn.
        -- intros _. split; [unfold nowork; cbn; auto|]. specialize (CU is_cleared Done). cbn in CU. lia.
        -- rewrite N, N2, N3, N4, C1, C2, C3, C4. auto.
      * constructor; cbn; auto. intro E. destruct (M E) as (N & Cc). split; [exact N|].
        specialize (CU is_cleared Done). cbn in CU. lia.
    + unfold run_workflow in H. destruct (loops s) as [|v r] eqn:Hl; inv_some H; constructor; cbn; auto.
      * intro E. destruct (M E) as ((N1 & N2 & N3 & N4) & Cc). rewrite Hl in *. split.
        -- unfold nowork. cbn. auto.
        -- specialize (CU is_cleared Done). cbn in CU. lia.
      * intro E. destruct (M E) as (N & Cc). split; [exact N|].
        specialize (CU is_cleared Done). cbn in CU. lia.
    + discriminate.
  - (* EPull: impossible while marked idle; otherwise the mark is None afterwards or was None *)
    apply tick_inv in H. destruct H as (v & r & k & v' & Hl & Hc & Hf & ->).
    destruct (mail v) as [|e m] eqn:Hm; inversion Hf; subst; clear Hf.
    assert (Hi : idle_since s = None).
    { destruct (idle_since s) eqn:E; [|reflexivity]. destruct M as ((_ & N2 & _) & _); [congruence|].
      rewrite Hl in N2. cbn in N2. rewrite Hm in N2. discriminate. }
    destruct (marked v); constructor; cbn; auto; intro E; congruence.
  - destruct (busy s) as [|b] eqn:Hb; [discriminate|].
    apply tick_inv in H. destruct H as (v & r & k & v' & Hl & Hc & Hf & ->). inversion Hf; subst; clear Hf.
    assert (Hi : idle_since s = None).
    { destruct (idle_since s) eqn:E; [|reflexivity]. destruct M as ((N1 & _) & _); [congruence|]. lia. }
    destruct (marked v); constructor; cbn; auto; intro E; congruence.
  - destruct is_retry; apply tick_inv in H; destruct H as (v & r & k & v' & Hl & Hc & Hf & ->).
    + destruct (retries v) as [|n] eqn:Hr; inversion Hf; subst; clear Hf.
      assert (Hi : idle_since s = None).
      { destruct (idle_since s) eqn:E; [|reflexivity]. destruct M as ((_ & _ & _ & N4) & _); [congruence|].
        rewrite Hl in N4. cbn in N4. lia. }
      destruct (marked v); constructor; cbn; auto; intro E; congruence.
    + destruct (sched v) as [|n] eqn:Hr; inversion Hf; subst; clear Hf.
      assert (Hi : idle_since s = None).
      { destruct (idle_since s) eqn:E; [|reflexivity]. destruct M as ((_ & _ & N3 & _) & _); [congruence|].
        rewrite Hl in N3. cbn in N3. lia. }
      destruct (marked v); constructor; cbn; auto; intro E; congruence.
  - destruct (Nat.eqb (busy s) 0 && running s); [|discriminate].
    apply with_head_inv in H. destruct H as (v & r & k & v' & Hl & Hf & ->).
    destruct (idle_cap v); [discriminate|]. destruct (retries v) eqn:Hr; inversion Hf; subst; clear Hf.
    constructor; cbn; auto. intro E. destruct (M E) as ((N1 & N2 & N3 & N4) & Cc). split; [|exact Cc].
    unfold nowork. rewrite Hl in *. cbn in *. rewrite ?Hr in *. auto.
  - cbn in Ht. apply andb_prop in Ht. destruct Ht as (Hw & Hcl).
    apply negb_true_iff in Hw, Hcl. apply has_work_false in Hw. apply existsb_count0 in Hcl.
    apply with_head_inv in H. destruct H as (v & r & k & v' & Hl & Hf & ->).
    destruct (idle_cap v) eqn:Hc; inversion Hf; subst; clear Hf.
    constructor; cbn; auto. intros _. rewrite count_app. cbn. split; [|lia].
    destruct Hw as (N1 & N2 & N3 & N4). unfold nowork. rewrite Hl in *. cbn in *. auto.
  - apply with_head_inv in H. destruct H as (v & r & k & v' & Hl & Hf & ->).
    destruct (idle_cap v); [discriminate|]. destruct (marked v); inversion Hf; subst; clear Hf.
    constructor; cbn; auto. intro E. congruence.
  - destruct (busy s) as [|b] eqn:Hb; [discriminate|]. destruct (loops s) as [|v r] eqn:Hl; [discriminate|].
    destruct (idle_cap v); [discriminate|]. inv_some H.
    assert (Hi : idle_since s = None).
    { destruct (idle_since s) eqn:E; [|reflexivity]. destruct M as ((N1 & _) & _); [congruence|]. lia. }
    constructor; cbn; auto. intro E. congruence.
  - inv_some H. constructor; cbn; auto. rewrite count_done by reflexivity.
    intro E. destruct (M E) as ((N1 & _) & _). split; [unfold nowork; cbn; auto|reflexivity].
  - destruct (resumed s); [discriminate|].
    destruct (running s && match idle_since s with None => true | Some _ => false end && negb (active s));
      inv_some H; constructor; cbn; auto.
    rewrite count_app. cbn. intro E. destruct (M E) as (N & Cc). split; [exact N|lia].
Qed.

Lemma TM_set_raced s b : TM s -> TM (set_raced s b).
Proof. intros [M C]. constructor; cbn; auto. Qed.

Lemma TM_run tau : forall tr s s', TM s -> run_truthful tau s tr = true -> run tau s tr = Some s' -> TM s'.
Proof.
  induction tr as [|a r IH]; cbn; intros s s' T Ht H.
  - injection H as <-. exact T.
  - apply andb_prop in Ht. destruct Ht as (Ht1 & Ht2).
    destruct (step tau s a) as [s1|] eqn:Hs; [|discriminate].
    eapply IH; [|exact Ht2|exact H].
    apply step_split in Hs. destruct Hs as (s0 & H0 & ->). apply TM_set_raced. eapply TM_step0; eauto.
Qed.

(* ---------- conservation of events and of scheduled wakeups (every trace) ---------- *)
Definition occ := count_occ Z.eq_dec.
Record CInv (s : st) : Prop := {
  c_events : forall x, occ (delivered (g s)) x =
     (occ (log s) x + occ (all_mail (loops s)) x + occ (lost (g s)) x + occ (dropped (g s)) x)%nat ;
  c_timers : t_sched (g s) =
     (t_woke (g s) + sum_sched (loops s) + sum_retries (loops s) + lost_timers (g s) + lost_retries (g s)
      + t_dropped (g s))%nat }.

Lemma CInv_init : CInv init.
Proof. constructor; cbn; auto. Qed.

Ltac occ_norm :=
  unfold occ, all_mail, sum_sched, sum_retries in *; cbn in *; rewrite ?count_occ_app in *; cbn in *;
  rewrite ?count_occ_app in *; cbn in *;
  repeat match goal with
         | |- context[Z.eq_dec ?a ?b] => destruct (Z.eq_dec a b)
         | H : context[Z.eq_dec ?a ?b] |- _ => destruct (Z.eq_dec a b)
         end; try lia.
Ltac cons_solve CE CT :=
  constructor; cbn; [let x := fresh "x" in intro x; specialize (CE x); occ_norm | occ_norm].

Lemma CInv_step0 tau s a s0 : GInv s -> CInv s -> step0 tau s a = Some s0 -> CInv s0.
Proof.
  intros GI [CE CT] H. destruct a; cbn [step0] in H.
  - destruct (Z.leb 0 dt); [|discriminate]. inv_some H. constructor; cbn; auto.
  - destruct (started s) eqn:Hs; [discriminate|]. inv_some H.
    destruct GI as [_ _ _ G4 _ _ _ _ _ _]. destruct (G4 Hs) as (Hl & _). rewrite Hl in *.
    cons_solve CE CT.
  - destruct (started s); [|discriminate]. inv_some H. constructor; cbn; auto.
  - unfold task_step in H. destruct (nth_error (tasks s) i) as [q|] eqn:Hn; [|discriminate].
    destruct q.
    + destruct (lock_free s); [|discriminate]. inv_some H. constructor; cbn; auto.
    + inv_some H. constructor; cbn; auto.
    + unfold run_workflow in H. destruct (loops s) as [|v r] eqn:Hl; inv_some H; rewrite ?Hl in *.
      * cons_solve CE CT.
      * constructor; cbn; rewrite ?Hl; auto.
    + inv_some H. constructor; cbn; auto.
    + inv_some H. unfold put. destruct (loops s) as [|v r] eqn:Hl; [destruct (running s)|]; rewrite ?Hl in *.
      * constructor; cbn; rewrite ?Hl; auto.
      * constructor; cbn; rewrite ?Hl; auto.
      * cons_solve CE CT.
    + destruct (Z.leb due (now s)); [|discriminate]. inv_some H. constructor; cbn; auto.
    + destruct (lock_free s); [|discriminate]. inv_some H. constructor; cbn; auto.
    + inv_some H. destruct (release_check tau s).
      * unfold do_release. constructor; cbn.
        -- intro x. specialize (CE x). unfold occ in *. rewrite ?count_occ_app in *. cbn. lia.
        -- cbn. lia.
      * constructor; cbn; auto.
    + unfold run_workflow in H. destruct (loops s) as [|v r] eqn:Hl; inv_some H; rewrite ?Hl in *.
      * cons_solve CE CT.
      * constructor; cbn; rewrite ?Hl; auto.
    + discriminate.
  - apply tick_inv in H. destruct H as (v & r & k & v' & Hl & Hc & Hf & ->).
    destruct (mail v) as [|e m] eqn:Hm; inversion Hf; subst; clear Hf. rewrite Hl in *.
    destruct (marked v); cons_solve CE CT.
    all: rewrite Hm in *; occ_norm.
  - destruct (busy s) as [|b]; [discriminate|].
    apply tick_inv in H. destruct H as (v & r & k & v' & Hl & Hc & Hf & ->). inversion Hf; subst; clear Hf.
    rewrite Hl in *. destruct (marked v), retry, wait; cons_solve CE CT.
  - destruct is_retry; apply tick_inv in H; destruct H as (v & r & k & v' & Hl & Hc & Hf & ->);
    [destruct (retries v) as [|n] eqn:Hr|destruct (sched v) as [|n] eqn:Hr]; inversion Hf; subst; clear Hf;
    rewrite Hl in *; (destruct (marked v); cons_solve CE CT); rewrite ?Hr in *; try lia.
  - destruct (Nat.eqb (busy s) 0 && running s); [|discriminate].
    apply with_head_inv in H. destruct H as (v & r & k & v' & Hl & Hf & ->).
    destruct (idle_cap v); [discriminate|]. destruct (retries v) eqn:Hr; inversion Hf; subst; clear Hf.
    rewrite Hl in *. cons_solve CE CT. all: rewrite ?Hr in *; try lia.
  - apply with_head_inv in H. destruct H as (v & r & k & v' & Hl & Hf & ->).
    destruct (idle_cap v); inversion Hf; subst; clear Hf. rewrite Hl in *. cons_solve CE CT.
  - apply with_head_inv in H. destruct H as (v & r & k & v' & Hl & Hf & ->).
    destruct (idle_cap v); [discriminate|]. destruct (marked v); inversion Hf; subst; clear Hf.
    rewrite Hl in *. cons_solve CE CT.
  - destruct (busy s); [discriminate|]. destruct (loops s) as [|v r] eqn:Hl; [discriminate|].
    destruct (idle_cap v); [discriminate|]. inv_some H. cons_solve CE CT.
  - inv_some H. constructor; cbn.
    + intro x. specialize (CE x). unfold occ in *. rewrite ?count_occ_app in *. cbn. lia.
    + lia.
  - destruct (resumed s); [discriminate|].
    destruct (running s && match idle_since s with None => true | Some _ => false end && negb (active s));
      inv_some H; constructor; cbn; auto.
Qed.

Lemma CInv_run tau : forall tr s s', GInv s -> CInv s -> run tau s tr = Some s' -> CInv s'.
Proof.
  induction tr as [|a r IH]; cbn; intros s s' GI C H.
  - injection H as <-. exact C.
  - destruct (step tau s a) as [s1|] eqn:Hs; [|discriminate].
    eapply IH; [eapply GInv_step; eauto| |exact H].
    apply step_split in Hs. destruct Hs as (s0 & H0 & ->).
    destruct (CInv_step0 _ _ _ _ GI C H0) as [CE CT]. constructor; cbn; auto.
Qed.

(* ---------- packaged statements (used by Properties/C26.v, C36.v, C14.v) ---------- *)
Section Packaged.
Variable tau : Z.

Theorem ir_one_loop tr s : run tau init tr = Some s -> (length (loops s) <= 1)%nat.
Proof. intro H. exact (g_one_loop _ (reachable_GInv _ _ _ H)). Qed.

Theorem ir_loop_only_if_active tr s : run tau init tr = Some s -> active s = false -> loops s = [].
Proof. intro H. exact (g_live_active _ (reachable_GInv _ _ _ H)). Qed.

Theorem ir_lock_exclusive tr s : run tau init tr = Some s -> (count holds (tasks s) <= 1)%nat.
Proof. intro H. exact (g_lock _ (reachable_GInv _ _ _ H)). Qed.

Theorem ir_one_owner tr s : run tau init tr = Some s -> raced (g s) = false ->
  (reloads (g s) <= 1)%nat /\ guard_hits (g s) = 0%nat /\ undeliv (g s) = [] /\ misfailed (g s) = 0%nat.
Proof.
  intros H Hr. destruct (reachable_Inv _ _ _ H) as (_ & _ & NI).
  destruct (NI Hr) as [_ _ _ (K4a & K4b & K4c) (K5a & _) _ _ _ _ _]. auto.
Qed.

Theorem ir_release_only_quiescent tr s : run tau init tr = Some s -> raced (g s) = false ->
  rel_busy (g s) = 0%nat /\ lost_retries (g s) = 0%nat.
Proof.
  intros H Hr. destruct (reachable_Inv _ _ _ H) as (_ & _ & NI).
  destruct (NI Hr) as [_ _ _ _ _ _ _ _ KR KL]. auto.
Qed.

Theorem ir_safe_release_partial tr s : run_truthful tau init tr = true -> run tau init tr = Some s ->
  rel_work (g s) = 0%nat /\ lost (g s) = [] /\ lost_timers (g s) = 0%nat /\ lost_retries (g s) = 0%nat.
Proof. intros Ht H. exact (tm_clean _ (TM_run _ _ _ _ TM_init Ht H)). Qed.

Theorem ir_events_conserved tr s : run tau init tr = Some s -> forall x,
  occ (delivered (g s)) x =
  (occ (log s) x + occ (all_mail (loops s)) x + occ (lost (g s)) x + occ (dropped (g s)) x)%nat.
Proof. intro H. exact (c_events _ (CInv_run _ _ _ _ GInv_init CInv_init H)). Qed.

Theorem ir_timers_conserved tr s : run tau init tr = Some s ->
  t_sched (g s) = (t_woke (g s) + sum_sched (loops s) + sum_retries (loops s) + lost_timers (g s)
                   + lost_retries (g s) + t_dropped (g s))%nat.
Proof. intro H. exact (c_timers _ (CInv_run _ _ _ _ GInv_init CInv_init H)). Qed.

Theorem ir_released_is_marked_idle tr s : run tau init tr = Some s -> released (g s) = true ->
  idle_since s <> None /\ active s = false /\ loops s = [].
Proof.
  intros H Hr. pose proof (reachable_GInv _ _ _ H) as GI.
  destruct (g_released _ GI Hr) as (A & B & _). split; [exact A|]. split; [exact B|].
  exact (g_live_active _ GI B).
Qed.

Theorem ir_releaser_pending tr s : run tau init tr = Some s -> raced (g s) = false -> TP tau s.
Proof. intros H Hr. eapply TP_run; [apply Inv_init|apply TP_init|exact H|exact Hr]. Qed.

Theorem ir_releaser_woken_is_due tr s p : run tau init tr = Some s -> In p (tasks s) -> due_ok (now s) p.
Proof.
  intros H Hin. pose proof (g_due _ (reachable_GInv _ _ _ H)) as G5. rewrite Forall_forall in G5. auto.
Qed.

(* the idle announcement marks the handler idle with a time that is not in the future *)
Theorem ir_idle_event_marks tr s s' : run tau init tr = Some s -> step tau s EIdleWrite = Some s' ->
  exists t, idle_since s' = Some t /\ t <= now s' /\ In (RSleep (now s' + tau)) (tasks s').
Proof.
  intros H Hs. pose proof (reachable_GInv _ _ _ H) as GI.
  apply step_split in Hs. destruct Hs as (s0 & H0 & ->). cbn [step0] in H0.
  apply with_head_inv in H0. destruct H0 as (v & r & k & v' & Hl & Hf & ->).
  destruct (idle_cap v) as [t|] eqn:Hc; inversion Hf; subst. cbn. exists t. split; [reflexivity|].
  destruct GI as [_ _ _ _ _ G6 _ _ _ _]. rewrite Hl in G6. inversion G6; subst. unfold cap_ok in H2. rewrite Hc in H2.
  split; [exact H2|]. apply in_or_app. right. left. reflexivity.
Qed.

(* no idle announcement while a retry waits out its delay *)
Theorem ir_no_idle_while_retry_pending s s' : step tau s EIdleDecide = Some s' ->
  busy s = 0%nat /\ exists v r, loops s = v :: r /\ retries v = 0%nat.
Proof.
  intro Hs. apply step_split in Hs. destruct Hs as (s0 & H0 & ->). cbn [step0] in H0.
  destruct (Nat.eqb (busy s) 0 && running s) eqn:Hg; [|discriminate].
  apply andb_prop in Hg. destruct Hg as (Hb & _). apply Nat.eqb_eq in Hb. split; [exact Hb|].
  apply with_head_inv in H0. destruct H0 as (v & r & k & v' & Hl & Hf & ->).
  destruct (idle_cap v); [discriminate|]. destruct (retries v) eqn:Hr; [|discriminate]. eauto.
Qed.
End Packaged.

(* ---------- reload on demand: the next event sent to a released run ---------- *)
Lemma nth_error_app_len {A} (l : list A) x : nth_error (l ++ [x]) (length l) = Some x.
Proof. induction l; cbn; auto. Qed.
Lemma upd_app_len {A} (l : list A) x y : upd (length l) y (l ++ [x]) = l ++ [y].
Proof. induction l; cbn; congruence. Qed.
Lemma forallb_app_single {A} f (l : list A) x : forallb f (l ++ [x]) = forallb f l && f x.
Proof. rewrite forallb_app. cbn. rewrite andb_true_r. reflexivity. Qed.

Lemma step_task tau s i s0 : task_step tau s i = Some s0 ->
  step tau s (Task i) = Some (set_raced s0 (raced (g s0) || race_now s0)).
Proof. intro H. unfold step. cbn [step0]. rewrite H. reflexivity. Qed.

Lemma lock_free_set_raced s b : lock_free (set_raced s b) = lock_free s.
Proof. reflexivity. Qed.

Theorem ir_reload_on_send tau s e :
  started s = true -> active s = false -> loops s = [] -> lock_free s = true ->
  let i := length (tasks s) in
  exists s', run tau s [Send e; Task i; Task i; Task i; Task i] = Some s' /\
    active s' = true /\ idle_since s' = None /\ busy s' = busy s /\ log s' = log s /\
    loops s' = [{| mail := [e] ; retries := 0 ; sched := 0 ; idle_cap := None ; marked := false |}] /\
    nth_error (tasks s') i = Some Done /\ reloads (g s') = S (reloads (g s)).
Proof.
  intros Hst Ha Hl Hlf i. cbn [run].
  (* Send *)
  assert (E1 : exists s1, step tau s (Send e) = Some s1 /\ tasks s1 = tasks s ++ [SWant e] /\
            active s1 = false /\ loops s1 = [] /\ busy s1 = busy s /\ log s1 = log s /\
            reloads (g s1) = reloads (g s)).
  { unfold step. cbn [step0]. rewrite Hst. eexists. split; [reflexivity|]. cbn. auto 10. }
  destruct E1 as (s1 & -> & T1 & A1 & L1 & B1 & G1 & R1).
  (* SWant -> SReloading *)
  assert (E2 : exists s2, step tau s1 (Task i) = Some s2 /\ tasks s2 = tasks s ++ [SReloading e] /\
            active s2 = false /\ loops s2 = [] /\ busy s2 = busy s /\ log s2 = log s /\
            reloads (g s2) = reloads (g s)).
  { eexists. split.
    - apply step_task. unfold task_step. rewrite T1. subst i. rewrite nth_error_app_len.
      replace (lock_free s1) with true
        by (unfold lock_free in *; rewrite T1, forallb_app_single, Hlf; reflexivity).
      rewrite A1. reflexivity.
    - cbn. rewrite T1. subst i. rewrite upd_app_len. auto 10. }
  destruct E2 as (s2 & -> & T2 & A2 & L2 & B2 & G2 & R2).
  (* SReloading -> SReloaded *)
  assert (E3 : exists s3, step tau s2 (Task i) = Some s3 /\ tasks s3 = tasks s ++ [SReloaded e] /\
            active s3 = true /\ loops s3 = [fresh] /\ busy s3 = busy s /\ log s3 = log s /\
            reloads (g s3) = S (reloads (g s))).
  { eexists. split.
    - apply step_task. unfold task_step. rewrite T2. subst i. rewrite nth_error_app_len.
      unfold run_workflow. rewrite L2. reflexivity.
    - cbn. rewrite T2. subst i. rewrite upd_app_len. rewrite R2. auto 10. }
  destruct E3 as (s3 & -> & T3 & A3 & L3 & B3 & G3 & R3).
  (* SReloaded -> SCleared *)
  assert (E4 : exists s4, step tau s3 (Task i) = Some s4 /\ tasks s4 = tasks s ++ [SCleared e] /\
            active s4 = true /\ loops s4 = [fresh] /\ busy s4 = busy s /\ log s4 = log s /\
            reloads (g s4) = S (reloads (g s)) /\ idle_since s4 = None).
  { eexists. split.
    - apply step_task. unfold task_step. rewrite T3. subst i. rewrite nth_error_app_len. reflexivity.
    - cbn. rewrite T3. subst i. rewrite upd_app_len. auto 10. }
  destruct E4 as (s4 & -> & T4 & A4 & L4 & B4 & G4 & R4 & I4).
  (* SCleared -> Done *)
  assert (E5 : step tau s4 (Task i) = Some (set_raced (set_task (put e s4) i Done)
                 (raced (g (set_task (put e s4) i Done)) || race_now (set_task (put e s4) i Done)))).
  { apply step_task. unfold task_step. rewrite T4. subst i. rewrite nth_error_app_len. reflexivity. }
  rewrite E5. eexists. split; [reflexivity|].
  unfold put. rewrite L4. cbn. rewrite T4. subst i. rewrite upd_app_len, nth_error_app_len. auto 10.
Qed.

(* ---------- refutation witnesses (the unchanged code, hence the model, does this) ---------- *)
(* an event still in the receive queue is dropped by a release: idle_timeout 0, a step sent event 7
   to its own run and returned None, the engine announces idle before pulling it *)
Lemma wit_event_lost :
  exists tau tr s, run tau init tr = Some s /\ raced (g s) = false /\ lost (g s) = [7] /\ rel_busy (g s) = 0%nat.
Proof.
  exists 0, [Start; EDone [7] 0%nat false false; EIdleDecide; EIdleWrite; Task 0%nat; Task 0%nat; Task 0%nat].
  eexists. split; [vm_compute; reflexivity|]. vm_compute. auto.
Qed.

(* a waiter timeout that has not fired is dropped by a release (the run only waits: it is idle) *)
Lemma wit_waiter_timeout_lost :
  exists tau tr s, run tau init tr = Some s /\ raced (g s) = false /\ lost_timers (g s) = 1%nat /\
                   released (g s) = true /\ sum_sched (loops s) = 0%nat.
Proof.
  exists 6, [Start; EDone [] 0%nat false true; EIdleDecide; EIdleWrite; Advance 6; Task 0%nat; Task 0%nat; Task 0%nat].
  eexists. split; [vm_compute; reflexivity|]. vm_compute. auto.
Qed.

(* a retry that waits out its delay is dropped by a crash and is not there after the restart *)
Lemma wit_retry_lost_at_crash :
  exists tau tr s, run tau init tr = Some s /\ t_sched (g s) = 1%nat /\ t_woke (g s) = 0%nat /\
                   t_dropped (g s) = 1%nat /\ active s = true /\ sum_retries (loops s) = 0%nat /\ busy s = 0%nat.
Proof.
  exists 64, [Start; EDone [] 0%nat true false; Crash; Restart; Task 0%nat].
  eexists. split; [vm_compute; reflexivity|]. vm_compute. auto 10.
Qed.

(* server start resumes a run while a sender reloads it: the second workflow.run hits BasicRuntime's
   guard, the sender's task dies with the RuntimeError and its event is gone *)
Lemma wit_startup_race :
  exists tau tr s, run tau init tr = Some s /\ raced (g s) = true /\ guard_hits (g s) = 1%nat /\
                   undeliv (g s) = [5].
Proof.
  exists 64, [Start; Crash; Restart; Send 5; Task 1%nat; Task 0%nat; Task 1%nat].
  eexists. split; [vm_compute; reflexivity|]. vm_compute. auto.
Qed.

(* non-vacuity: a run is released after the timeout and reloaded by the next event, truthfully *)
Lemma wit_release_and_reload :
  exists tau tr s, run tau init tr = Some s /\ run_truthful tau init tr = true /\ raced (g s) = false /\
                   active s = true /\ log s = [3] /\ reloads (g s) = 1%nat /\ idle_since s = None.
Proof.
  exists 64, [Start; EDone [] 0%nat false false; EIdleDecide; EIdleWrite; Advance 64; Task 0%nat; Task 0%nat; Task 0%nat;
              Send 3; Task 1%nat; Task 1%nat; Task 1%nat; Task 1%nat; EPull].
  eexists. split; [vm_compute; reflexivity|]. vm_compute. auto 10.
Qed.
