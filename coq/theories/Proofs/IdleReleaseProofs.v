(* Invariants of M-IdleRelease (Model/IdleRelease.v), proved for every action sequence. *)
From Coq Require Import List ZArith Bool PeanoNat Lia Permutation.
Import ListNotations.
From WF Require Import Model.IdleRelease.
Open Scope Z_scope.

(* ---------- counting tasks by program counter ---------- *)
Definition b2n (b : bool) : nat := if b then 1%nat else 0%nat.
Fixpoint count (f : pc -> bool) (l : list pc) : nat :=
  match l with [] => 0%nat | p :: t => (b2n (f p) + count f t)%nat end.

Lemma count_app f l p : count f (l ++ [p]) = (count f l + b2n (f p))%nat.
Proof. induction l as [|q t IH]; cbn; [lia|]. rewrite IH. lia. Qed.

Lemma count_upd f l : forall i p q, nth_error l i = Some q ->
  (count f (upd i p l) + b2n (f q) = count f l + b2n (f p))%nat.
Proof.
  induction l as [|h t IH]; intros [|i] p q H; cbn in *; try discriminate.
  - injection H as <-. lia.
  - specialize (IH _ p _ H). lia.
Qed.

Lemma count_done f (l : list pc) : f Done = false -> count f (map (fun _ => Done) l) = 0%nat.
Proof. intro H. induction l; cbn; [reflexivity|]. rewrite H, IHl. reflexivity. Qed.

Lemma forallb_count f l : forallb (fun p => negb (f p)) l = true <-> count f l = 0%nat.
Proof.
  induction l as [|p t IH]; cbn; [tauto|].
  destruct (f p); cbn; split; intro H; try discriminate; try lia.
  - apply IH in H. lia.
  - apply IH. lia.
Qed.

Lemma existsb_count f l : existsb f l = true <-> (0 < count f l)%nat.
Proof.
  induction l as [|p t IH]; cbn; [split; [discriminate|lia]|].
  destruct (f p); cbn; split; intro H; try lia; try reflexivity.
  - apply IH in H. lia.
  - apply IH. lia.
Qed.

Lemma existsb_count0 f l : existsb f l = false <-> count f l = 0%nat.
Proof.
  destruct (existsb f l) eqn:E.
  - apply existsb_count in E. split; [discriminate|lia].
  - split; [|reflexivity]. intros _. destruct (count f l) eqn:C; [reflexivity|].
    assert (existsb f l = true) by (apply existsb_count; lia). congruence.
Qed.

Lemma lock_free_count s : lock_free s = true <-> count holds (tasks s) = 0%nat.
Proof. unfold lock_free. apply forallb_count. Qed.

Lemma count_nth_pos f l i q : nth_error l i = Some q -> f q = true -> (0 < count f l)%nat.
Proof.
  revert i. induction l as [|h t IH]; intros [|i] H Hq; cbn in *; try discriminate.
  - injection H as ->. rewrite Hq. cbn. lia.
  - specialize (IH _ H Hq). lia.
Qed.

Lemma in_upd_other {A} (l : list A) : forall i x p q, nth_error l i = Some q -> In p l -> p <> q -> In p (upd i x l).
Proof.
  induction l as [|h t IH]; intros [|i] x p q H Hin Hne; cbn in *; try discriminate; try tauto.
  - injection H as ->. destruct Hin as [->|Hin]; [congruence|right; exact Hin].
  - destruct Hin as [->|Hin]; [left; reflexivity|right; eapply IH; eauto].
Qed.

Lemma in_upd_self {A} (l : list A) : forall i x q, nth_error l i = Some q -> In x (upd i x l).
Proof.
  induction l as [|h t IH]; intros [|i] x q H; cbn in *; try discriminate.
  - left; reflexivity.
  - right; eapply IH; eauto.
Qed.

Lemma in_upd_inv {A} (l : list A) : forall i x p, In p (upd i x l) -> p = x \/ In p l.
Proof.
  induction l as [|h t IH]; intros [|i] x p H; cbn in *; try tauto.
  - destruct H as [->|H]; [left; reflexivity|right; right; exact H].
  - destruct H as [->|H]; [right; left; reflexivity|]. apply IH in H. tauto.
Qed.

Lemma nth_error_in_tasks {A} (l : list A) i q : nth_error l i = Some q -> In q l.
Proof. apply nth_error_In. Qed.

(* ---------- step inversion helpers ---------- *)
Ltac head_case H :=
  unfold with_head in H;
  match type of H with
  | match loops ?s with _ => _ end = _ => destruct (loops s) as [|?v ?r] eqn:?Hloops; [discriminate|]
  end.

Ltac inv_some H := injection H as H; subst.

(* fields of the result of [step] in terms of [step0] *)
Lemma step_split tau s a s' : step tau s a = Some s' ->
  exists s0, step0 tau s a = Some s0 /\ s' = set_raced s0 (raced (g s0) || race_now s0).
Proof.
  unfold step. destruct (step0 tau s a) as [s0|]; [|discriminate].
  intro H. injection H as <-. eauto.
Qed.

(* ---------- general invariants (every reachable state) ---------- *)
Definition is_mid (p : pc) : bool :=
  match p with SHold _ | SReloaded _ | SCleared _ => true | _ => false end.
Definition due_ok (nw : Z) (p : pc) : Prop :=
  match p with RWant d | RHold d => d <= nw | _ => True end.
Definition cap_ok (nw : Z) (v : vol) : Prop :=
  match idle_cap v with Some t => t <= nw | None => True end.

Record GInv (s : st) : Prop := {
  g_one_loop : (length (loops s) <= 1)%nat ;
  g_live_active : active s = false -> loops s = [] ;
  g_lock : (count holds (tasks s) <= 1)%nat ;
  g_unstarted : started s = false ->
     loops s = [] /\ tasks s = [] /\ running s = false /\ active s = false /\ released (g s) = false ;
  g_due : Forall (due_ok (now s)) (tasks s) ;
  g_cap : Forall (cap_ok (now s)) (loops s) ;
  g_released : released (g s) = true -> idle_since s <> None /\ active s = false /\ count is_mid (tasks s) = 0%nat ;
  g_mid_active : (0 < count is_mid (tasks s))%nat -> active s = true ;
  g_boot : resumed s = false -> count is_breplay (tasks s) = 0%nat ;
  g_boot1 : (count is_breplay (tasks s) <= 1)%nat }.

Lemma holds_mid p : is_mid p = true -> holds p = true.
Proof. destruct p; cbn; congruence. Qed.

Lemma count_le f h l : (forall p, f p = true -> h p = true) -> (count f l <= count h l)%nat.
Proof.
  intro H. induction l as [|p t IH]; cbn; [lia|].
  destruct (f p) eqn:E; [rewrite (H _ E)|]; cbn; destruct (h p); cbn; lia.
Qed.

Lemma Forall_upd {A} (P : A -> Prop) l : forall i x, Forall P l -> P x -> Forall P (upd i x l).
Proof.
  induction l as [|h t IH]; intros [|i] x Hl Hx; cbn; auto; inversion Hl; subst; constructor; auto.
Qed.

Lemma Forall_due_mono n n' l : n <= n' -> Forall (due_ok n) l -> Forall (due_ok n') l.
Proof.
  intros Hle H. induction H; constructor; auto.
  destruct x; cbn in *; auto; lia.
Qed.
Lemma Forall_cap_mono n n' l : n <= n' -> Forall (cap_ok n) l -> Forall (cap_ok n') l.
Proof.
  intros Hle H. induction H; constructor; auto.
  unfold cap_ok in *. destruct (idle_cap x); auto; lia.
Qed.

Lemma GInv_init : GInv init.
Proof. constructor; cbn; intros; auto; try lia; try discriminate. Qed.

(* run_workflow: both outcomes *)
Lemma run_workflow_ok s s1 : run_workflow s = (s1, true) ->
  loops s = [] /\ s1 = set_released (set_reloads (set_loops (set_active s true) [fresh]) (S (reloads (g s)))) false.
Proof. unfold run_workflow. destruct (loops s); intro H; inversion H; auto. Qed.
Lemma run_workflow_fail s s1 : run_workflow s = (s1, false) ->
  loops s <> [] /\ s1 = set_guard_hits (set_active s true) (S (guard_hits (g s))).
Proof. unfold run_workflow. destruct (loops s); intro H; inversion H; split; auto; discriminate. Qed.

Ltac count_upd_all Hn :=
  let t := fresh in
  pose proof (fun f p => count_upd f _ _ p _ Hn) as t.

Lemma fresh_cap n : cap_ok n fresh.
Proof. exact I. Qed.

Lemma GInv_task tau s i s0 : GInv s -> task_step tau s i = Some s0 -> GInv s0.
Proof.
  intros [G1 G2 G3 G4 G5 G6 G7 G8 G9 G10] H. unfold task_step in H.
  destruct (nth_error (tasks s) i) as [p|] eqn:Hn; [|discriminate].
  assert (Hst : started s = true).
  { destruct (started s) eqn:E; [reflexivity|]. destruct (G4 eq_refl) as (_ & Ht & _). rewrite Ht in Hn.
    destruct i; discriminate. }
  pose proof (fun f p' => count_upd f _ _ p' _ Hn) as CU.
  assert (Hmh := count_le is_mid holds (tasks s) holds_mid).
  destruct p.
  - (* SWant *)
    destruct (lock_free s) eqn:Hlf; [|discriminate]. apply lock_free_count in Hlf. inv_some H.
    assert (Hm0 : count is_mid (tasks s) = 0%nat) by lia.
    destruct (active s) eqn:Ha; constructor; cbn; intros; auto; try congruence;
      try (specialize (CU holds (SHold e)); cbn in CU; lia);
      try (specialize (CU holds (SReloading e)); cbn in CU; lia);
      try (apply Forall_upd; [assumption|exact I]);
      try (specialize (CU is_breplay (SHold e)); cbn in CU; specialize (G9 H); lia);
      try (specialize (CU is_breplay (SReloading e)); cbn in CU; specialize (G9 H); lia);
      try (specialize (CU is_breplay (SHold e)); cbn in CU; lia);
      try (specialize (CU is_breplay (SReloading e)); cbn in CU; lia).
    + destruct (G7 H) as (? & ? & ?). congruence.
    + destruct (G7 H) as (? & ? & ?). repeat split; auto. specialize (CU is_mid (SReloading e)); cbn in CU; lia.
    + specialize (CU is_mid (SReloading e)); cbn in CU; lia.
  - (* SHold *)
    inv_some H.
    assert (Hact : active s = true) by (apply G8; eapply count_nth_pos; eauto).
    constructor; cbn; intros; auto; try congruence;
      try (specialize (CU holds (SCleared e)); cbn in CU; lia);
      try (apply Forall_upd; [assumption|exact I]);
      try (specialize (CU is_breplay (SCleared e)); cbn in CU; try specialize (G9 H); lia).
    destruct (G7 H) as (? & ? & ?). congruence.
  - (* SReloading *)
    destruct (run_workflow s) as [s1 ok] eqn:Hrw. destruct ok.
    + apply run_workflow_ok in Hrw. destruct Hrw as (Hl & ->). inv_some H.
      constructor; cbn; intros; auto; try congruence; try lia;
        try (specialize (CU holds (SReloaded e)); cbn in CU; lia);
        try (apply Forall_upd; [assumption|exact I]);
        try (constructor; [exact I|constructor]);
        try (specialize (CU is_breplay (SReloaded e)); cbn in CU; try specialize (G9 H); lia).
    + apply run_workflow_fail in Hrw. destruct Hrw as (Hl & ->). inv_some H.
      constructor; cbn; intros; auto; try congruence;
        try (specialize (CU holds Done); cbn in CU; lia);
        try (apply Forall_upd; [assumption|exact I]);
        try (specialize (CU is_breplay Done); cbn in CU; try specialize (G9 H); lia).
      destruct (G7 H) as (? & Hf & ?). apply G2 in Hf. contradiction.
  - (* SReloaded *)
    inv_some H.
    assert (Hact : active s = true) by (apply G8; eapply count_nth_pos; eauto).
    constructor; cbn; intros; auto; try congruence;
      try (specialize (CU holds (SCleared e)); cbn in CU; lia);
      try (apply Forall_upd; [assumption|exact I]);
      try (specialize (CU is_breplay (SCleared e)); cbn in CU; try specialize (G9 H); lia).
    destruct (G7 H) as (? & ? & ?). congruence.
  - (* SCleared *)
    inv_some H.
    assert (Hact : active s = true) by (apply G8; eapply count_nth_pos; eauto).
    unfold put. destruct (loops s) as [|v r] eqn:Hl; [destruct (running s)|];
    (constructor; cbn; rewrite ?Hl; cbn; intros; auto; try congruence;
      try (specialize (CU holds Done); cbn in CU; lia);
      try (apply Forall_upd; [assumption|exact I]);
      try (specialize (CU is_breplay Done); cbn in CU; try specialize (G9 H); lia);
      try (destruct (G7 H) as (? & ? & ?); congruence);
      try (specialize (CU is_mid Done); cbn in CU; apply G8; lia)).
    + inversion G6; subst. constructor; auto.
  - (* RSleep *)
    destruct (Z.leb due (now s)) eqn:Hd; [|discriminate]. inv_some H. apply Z.leb_le in Hd.
    constructor; cbn; intros; auto; try congruence;
      try (specialize (CU holds (RWant due)); cbn in CU; lia);
      try (apply Forall_upd; [assumption|exact Hd]);
      try (specialize (CU is_breplay (RWant due)); cbn in CU; try specialize (G9 H); lia).
    + destruct (G7 H) as (? & ? & ?). repeat split; auto. specialize (CU is_mid (RWant due)); cbn in CU; lia.
    + apply G8. specialize (CU is_mid (RWant due)); cbn in CU; lia.
  - (* RWant *)
    destruct (lock_free s) eqn:Hlf; [|discriminate]. apply lock_free_count in Hlf. inv_some H.
    assert (Hd : due <= now s).
    { rewrite Forall_forall in G5. exact (G5 _ (nth_error_In _ _ Hn)). }
    constructor; cbn; intros; auto; try congruence;
      try (specialize (CU holds (RHold due)); cbn in CU; lia);
      try (apply Forall_upd; [assumption|exact Hd]);
      try (specialize (CU is_breplay (RHold due)); cbn in CU; try specialize (G9 H); lia).
    + destruct (G7 H) as (? & ? & ?). repeat split; auto. specialize (CU is_mid (RHold due)); cbn in CU; lia.
    + apply G8. specialize (CU is_mid (RHold due)); cbn in CU; lia.
  - (* RHold *)
    inv_some H.
    assert (Hh : count holds (tasks s) = 1%nat).
    { pose proof (count_nth_pos holds _ _ _ Hn eq_refl). lia. }
    assert (Hm0 : count is_mid (upd i Done (tasks s)) = 0%nat).
    { pose proof (CU holds Done) as C1. cbn in C1.
      pose proof (count_le is_mid holds (upd i Done (tasks s)) holds_mid). lia. }
    destruct (release_check tau s) eqn:Hrc.
    + unfold release_check in Hrc. apply andb_prop in Hrc. destruct Hrc as (Hi & Ha).
      constructor; cbn; intros; auto; try congruence; try lia;
        try (specialize (CU holds Done); cbn in CU; lia);
        try (apply Forall_upd; [assumption|exact I]);
        try (specialize (CU is_breplay Done); cbn in CU; try specialize (G9 H); lia).
      repeat split; auto. destruct (idle_since s); [discriminate|discriminate].
    + constructor; cbn; intros; auto; try congruence;
        try (specialize (CU holds Done); cbn in CU; lia);
        try (apply Forall_upd; [assumption|exact I]);
        try (specialize (CU is_breplay Done); cbn in CU; try specialize (G9 H); lia).
      all: try (destruct (G7 H) as (? & ? & ?); repeat split; auto); try lia.
  - (* BReplay *)
    destruct (run_workflow s) as [s1 ok] eqn:Hrw. destruct ok.
    + apply run_workflow_ok in Hrw. destruct Hrw as (Hl & ->). inv_some H.
      constructor; cbn; intros; auto; try congruence; try lia;
        try (specialize (CU holds Done); cbn in CU; lia);
        try (apply Forall_upd; [assumption|exact I]);
        try (constructor; [exact I|constructor]);
        try (specialize (CU is_breplay Done); cbn in CU; try specialize (G9 H); lia).
    + apply run_workflow_fail in Hrw. destruct Hrw as (Hl & ->). inv_some H.
      constructor; cbn; intros; auto; try congruence;
        try (specialize (CU holds Done); cbn in CU; lia);
        try (apply Forall_upd; [assumption|exact I]);
        try (specialize (CU is_breplay Done); cbn in CU; try specialize (G9 H); lia).
      all: try (destruct (G7 H) as (? & Hf & ?); apply G2 in Hf; contradiction).
      all: try (apply G8; specialize (CU is_mid Done); cbn in CU; lia).
  - discriminate.
Qed.

(* the engine-tick combinator *)
Lemma tick_inv s f s0 : tick s f = Some s0 ->
  exists v r k v', loops s = v :: r /\ idle_cap v = None /\ f v = (Some k, v') /\
    s0 = k (set_loops (if marked v then set_idle_since s None else s) (v' :: r)).
Proof.
  unfold tick. destruct (loops s) as [|v r]; [discriminate|].
  destruct (idle_cap v) eqn:Hc; [discriminate|].
  destruct (f v) as [[k|] v'] eqn:Hf; [|discriminate].
  intro H. injection H as <-. exists v, r, k, v'. auto.
Qed.
Lemma with_head_inv s f s0 : with_head s f = Some s0 ->
  exists v r k v', loops s = v :: r /\ f v = (Some k, v') /\ s0 = k (set_loops s (v' :: r)).
Proof.
  unfold with_head. destruct (loops s) as [|v r]; [discriminate|].
  destruct (f v) as [[k|] v'] eqn:Hf; [|discriminate].
  intro H. injection H as <-. exists v, r, k, v'. auto.
Qed.

Lemma cap_none_ok n v : idle_cap v = None -> cap_ok n v.
Proof. unfold cap_ok. intros ->. exact I. Qed.

Lemma GInv_step0 tau s a s0 : GInv s -> step0 tau s a = Some s0 -> GInv s0.
Proof.
  intros GI H. destruct a; cbn [step0] in H.
  - (* Advance *)
    destruct (Z.leb 0 dt) eqn:Hd; [|discriminate]. apply Z.leb_le in Hd. inv_some H.
    destruct GI as [G1 G2 G3 G4 G5 G6 G7 G8 G9 G10].
    constructor; cbn; auto.
    + eapply Forall_due_mono; [|exact G5]. lia.
    + eapply Forall_cap_mono; [|exact G6]. lia.
  - (* Start *)
    destruct (started s) eqn:Hs; [discriminate|]. inv_some H.
    destruct GI as [G1 G2 G3 G4 G5 G6 G7 G8 G9 G10].
    destruct (G4 Hs) as (Hl & Ht & Hr & Ha & Hrel).
    constructor; cbn; rewrite ?Ht; cbn; intros; auto; try congruence; try lia.
    constructor; [exact I|constructor].
  - (* Send *)
    destruct (started s) eqn:Hs; [|discriminate]. inv_some H.
    destruct GI as [G1 G2 G3 G4 G5 G6 G7 G8 G9 G10].
    constructor; cbn; rewrite ?count_app; cbn; intros; auto; try congruence; try lia.
    + apply Forall_app. split; [assumption|constructor; [exact I|constructor]].
    + destruct (G7 H) as (? & ? & ?). repeat split; auto. lia.
    + apply G8. lia.
    + specialize (G9 H). lia.
  - (* Task *) eapply GInv_task; eauto.
  - (* EPull *)
    apply tick_inv in H. destruct H as (v & r & k & v' & Hl & Hc & Hf & ->).
    destruct (mail v) as [|e m]; inversion Hf; subst; clear Hf.
    destruct GI as [G1 G2 G3 G4 G5 G6 G7 G8 G9 G10]. rewrite Hl in *.
    assert (Ha : active s = true) by (destruct (active s); [reflexivity|specialize (G2 eq_refl); discriminate]).
    inversion G6; subst.
    destruct (marked v); constructor; cbn; intros; auto; try congruence;
      try (constructor; [exact I|assumption]);
      try (destruct (G4 H) as (Hx & _); discriminate);
      try (destruct (G7 H) as (? & ? & ?); congruence).
  - (* EDone *)
    destruct (busy s) as [|b] eqn:Hb; [discriminate|].
    apply tick_inv in H. destruct H as (v & r & k & v' & Hl & Hc & Hf & ->).
    inversion Hf; subst; clear Hf.
    destruct GI as [G1 G2 G3 G4 G5 G6 G7 G8 G9 G10]. rewrite Hl in *.
    assert (Ha : active s = true) by (destruct (active s); [reflexivity|specialize (G2 eq_refl); discriminate]).
    inversion G6; subst.
    destruct (marked v); constructor; cbn; intros; auto; try congruence;
      try (constructor; [exact I|assumption]);
      try (destruct (G4 H) as (Hx & _); discriminate);
      try (destruct (G7 H) as (? & ? & ?); congruence).
  - (* EWake *)
    destruct is_retry; apply tick_inv in H; destruct H as (v & r & k & v' & Hl & Hc & Hf & ->);
    [destruct (retries v) as [|n]|destruct (sched v) as [|n]]; inversion Hf; subst; clear Hf;
    destruct GI as [G1 G2 G3 G4 G5 G6 G7 G8 G9 G10]; rewrite Hl in *;
    assert (Ha : active s = true) by (destruct (active s); [reflexivity|specialize (G2 eq_refl); discriminate]);
    inversion G6; subst;
    (destruct (marked v); constructor; cbn; intros; auto; try congruence;
      try (constructor; [exact I|assumption]);
      try (destruct (G4 H) as (Hx & _); discriminate);
      try (destruct (G7 H) as (? & ? & ?); congruence)).
  - (* EIdleDecide *)
    destruct (Nat.eqb (busy s) 0 && running s); [|discriminate].
    apply with_head_inv in H. destruct H as (v & r & k & v' & Hl & Hf & ->).
    destruct (idle_cap v); [discriminate|]. destruct (retries v); inversion Hf; subst; clear Hf.
    destruct GI as [G1 G2 G3 G4 G5 G6 G7 G8 G9 G10]. rewrite Hl in *.
    inversion G6; subst.
    constructor; cbn; intros; auto; try congruence;
      try (destruct (G4 H) as (Hx & _); discriminate);
      try (specialize (G2 H); discriminate).
    constructor; [unfold cap_ok; cbn; lia|assumption].
  - (* EIdleWrite *)
    apply with_head_inv in H. destruct H as (v & r & k & v' & Hl & Hf & ->).
    destruct (idle_cap v) as [t|] eqn:Hc; inversion Hf; subst; clear Hf.
    destruct GI as [G1 G2 G3 G4 G5 G6 G7 G8 G9 G10]. rewrite Hl in *.
    assert (Ha : active s = true) by (destruct (active s); [reflexivity|specialize (G2 eq_refl); discriminate]).
    inversion G6; subst.
    constructor; cbn; rewrite ?count_app; cbn; intros; auto; try congruence; try lia;
      try (destruct (G4 H) as (Hx & _); discriminate).
    all: try (apply Forall_app; split; [assumption|constructor; [exact I|constructor]]).
    all: try (constructor; [exact I|assumption]).
    all: try (destruct (G7 H) as (? & ? & ?); congruence).
    all: try (apply G8; lia).
    all: try (specialize (G9 H); lia).
  - (* EFinish *)
    destruct (busy s) as [|b] eqn:Hb; [discriminate|].
    destruct (loops s) as [|v r] eqn:Hl; [discriminate|].
    destruct (idle_cap v); [discriminate|]. inv_some H.
    destruct GI as [G1 G2 G3 G4 G5 G6 G7 G8 G9 G10]. rewrite Hl in *.
    assert (Ha : active s = true) by (destruct (active s); [reflexivity|specialize (G2 eq_refl); discriminate]).
    inversion G6; subst. cbn in G1.
    constructor; cbn; intros; auto; try congruence; try lia;
      try (destruct (G4 H) as (Hx & _); discriminate).
    all: try (destruct r; [reflexivity|cbn in G1; lia]).
    all: try (destruct (G7 H) as (? & ? & ?); congruence).
  - (* Crash *)
    inv_some H. destruct GI as [G1 G2 G3 G4 G5 G6 G7 G8 G9 G10].
    constructor; cbn; rewrite ?count_done by reflexivity; intros; auto; try congruence; try lia.
    + destruct (G4 H) as (? & Ht & ? & ? & ?). rewrite Ht. cbn. auto.
    + clear. induction (tasks s); cbn; constructor; auto. exact I.
  - (* Restart *)
    destruct (resumed s) eqn:Hr; [discriminate|].
    destruct GI as [G1 G2 G3 G4 G5 G6 G7 G8 G9 G10].
    destruct (running s && match idle_since s with None => true | Some _ => false end && negb (active s)) eqn:Hc;
      inv_some H.
    + apply andb_prop in Hc. destruct Hc as (Hc & Hna). apply andb_prop in Hc. destruct Hc as (Hrun & Hi).
      constructor; cbn; rewrite ?count_app; cbn; intros; auto; try congruence; try lia.
      * destruct (G4 H) as (? & ? & ? & ? & ?). congruence.
      * apply Forall_app. split; [assumption|constructor; [exact I|constructor]].
      * destruct (G7 H) as (? & ? & ?). destruct (idle_since s); [discriminate|contradiction].
      * apply G8. lia.
      * specialize (G9 Hr). lia.
    + constructor; cbn; intros; auto; try congruence.
Qed.

Lemma GInv_step tau s a s' : GInv s -> step tau s a = Some s' -> GInv s'.
Proof.
  intros GI H. apply step_split in H. destruct H as (s0 & H0 & ->).
  pose proof (GInv_step0 _ _ _ _ GI H0) as [G1 G2 G3 G4 G5 G6 G7 G8 G9 G10].
  constructor; cbn; auto.
Qed.

Lemma GInv_run tau : forall tr s s', GInv s -> run tau s tr = Some s' -> GInv s'.
Proof.
  induction tr as [|a r IH]; cbn; intros s s' GI H.
  - injection H as <-. exact GI.
  - destruct (step tau s a) as [s1|] eqn:Hs; [|discriminate]. eapply IH; [|exact H]. eapply GInv_step; eauto.
Qed.

Theorem reachable_GInv tau tr s : run tau init tr = Some s -> GInv s.
Proof. apply GInv_run. apply GInv_init. Qed.

(* ---------- invariants that need "no reload/startup race so far" ---------- *)
Definition is_reloaded (p : pc) : bool := match p with SReloaded _ => true | _ => false end.

Record NK (s : st) : Prop := {
  k_reloading : (0 < count is_reloading (tasks s))%nat -> active s = false ;
  k_breplay : (0 < count is_breplay (tasks s))%nat -> active s = false /\ idle_since s = None ;
  k_live : running s = true -> active s = true -> loops s <> [] ;
  k_clean : guard_hits (g s) = 0%nat /\ undeliv (g s) = [] /\ misfailed (g s) = 0%nat ;
  k_owner : (reloads (g s) <= 1)%nat /\ (active s = false -> reloads (g s) = 0%nat) ;
  k_marked : forall v r, loops s = v :: r -> marked v = true -> busy s = 0%nat /\ retries v = 0%nat ;
  k_cap : forall v r, loops s = v :: r -> idle_cap v <> None -> marked v = true ;
  k_mark : active s = true -> idle_since s <> None -> count is_reloaded (tasks s) = 0%nat ->
           exists v, loops s = [v] /\ marked v = true ;
  k_relbusy : rel_busy (g s) = 0%nat }.

Lemma NK_init : NK init.
Proof. constructor; cbn; intros; auto; try lia; try discriminate; try congruence. Qed.

Lemma race_now_false s : race_now s = false ->
  count is_reloading (tasks s) = 0%nat \/ count is_breplay (tasks s) = 0%nat.
Proof.
  unfold race_now. intro H. apply andb_false_iff in H. destruct H as [H|H]; apply existsb_count0 in H; auto.
Qed.

Lemma reloaded_holds p : is_reloaded p = true -> holds p = true.
Proof. destruct p; cbn; congruence. Qed.
Lemma reloading_holds p : is_reloading p = true -> holds p = true.
Proof. destruct p; cbn; congruence. Qed.

Lemma NK_task tau s i s0 : GInv s -> NK s -> race_now s = false -> task_step tau s i = Some s0 -> NK s0.
Proof.
  intros [G1 G2 G3 G4 G5 G6 G7 G8 G9 G10] [K1 K2 K3 K4 K5 KV KC KU KR] Hrace H. unfold task_step in H.
  destruct (nth_error (tasks s) i) as [p|] eqn:Hn; [|discriminate].
  pose proof (fun f p' => count_upd f _ _ p' _ Hn) as CU.
  pose proof (count_le is_mid holds (tasks s) holds_mid) as Hmh.
  pose proof (count_le is_reloaded holds (tasks s) reloaded_holds) as Hrh.
  pose proof (count_le is_reloading holds (tasks s) reloading_holds) as Hgh.
  destruct K4 as (K4a & K4b & K4c). destruct K5 as (K5a & K5b).
  destruct p.
  - (* SWant *)
    destruct (lock_free s) eqn:Hlf; [|discriminate]. apply lock_free_count in Hlf. inv_some H.
    remember (active s) as a eqn:Ha in |- *. symmetry in Ha.
    destruct a; constructor; cbn; intros; auto; try congruence.
    all: try (specialize (CU is_reloading (SHold e)); cbn in CU; lia).
    all: try (apply K2; specialize (CU is_breplay (SHold e)); cbn in CU; lia).
    all: try (apply K2; specialize (CU is_breplay (SReloading e)); cbn in CU; lia).
    all: try (apply KU; auto; specialize (CU is_reloaded (SHold e)); cbn in CU; lia).
    all: eauto.
  - (* SHold *)
    inv_some H. constructor; cbn; intros; auto; try congruence.
    all: try (apply K1; specialize (CU is_reloading (SCleared e)); cbn in CU; lia).
    all: try (destruct K2 as (? & ?); [specialize (CU is_breplay (SCleared e)); cbn in CU; lia|auto]).
    all: eauto.
  - (* SReloading *)
    assert (Ha : active s = false) by (apply K1; eapply count_nth_pos; eauto).
    destruct (run_workflow s) as [s1 ok] eqn:Hrw. destruct ok.
    + apply run_workflow_ok in Hrw. destruct Hrw as (Hl & ->). inv_some H.
      assert (Hb0 : count is_breplay (tasks s) = 0%nat).
      { destruct (race_now_false _ Hrace) as [Hc|Hc]; [|exact Hc].
        pose proof (count_nth_pos is_reloading _ _ _ Hn eq_refl). lia. }
      assert (Hg1 : count is_reloading (tasks s) = 1%nat).
      { pose proof (count_nth_pos is_reloading _ _ _ Hn eq_refl).
        pose proof (count_nth_pos holds _ _ _ Hn eq_refl). lia. }
      constructor; cbn; intros; auto; try congruence; try lia.
      all: try (specialize (CU is_reloading (SReloaded e)); cbn in CU; lia).
      all: try (specialize (CU is_breplay (SReloaded e)); cbn in CU; lia).
      all: try (specialize (CU is_reloaded (SReloaded e)); cbn in CU; lia).
      * split; [specialize (K5b Ha); lia|discriminate].
      * inversion H; subst. cbn in H0. discriminate.
      * inversion H; subst. cbn in H0. congruence.
    + apply run_workflow_fail in Hrw. destruct Hrw as (Hl & _). specialize (G2 Ha). contradiction.
  - (* SReloaded *)
    inv_some H. constructor; cbn; intros; auto; try congruence.
    all: try (apply K1; specialize (CU is_reloading (SCleared e)); cbn in CU; lia).
    all: try (destruct K2 as (? & ?); [specialize (CU is_breplay (SCleared e)); cbn in CU; lia|auto]).
    all: eauto.
  - (* SCleared *)
    inv_some H.
    assert (Hact : active s = true) by (apply G8; eapply count_nth_pos; eauto).
    unfold put. destruct (loops s) as [|v r] eqn:Hl.
    + destruct (running s) eqn:Hr; [exfalso; apply (K3 eq_refl Hact); reflexivity|].
      constructor; cbn; rewrite ?Hl; intros; auto; try congruence.
      all: try (apply K1; specialize (CU is_reloading Done); cbn in CU; lia).
      all: try (apply K2; specialize (CU is_breplay Done); cbn in CU; lia).
      all: try (apply KU; auto; specialize (CU is_reloaded Done); cbn in CU; lia).
    + constructor; cbn; rewrite ?Hl; intros; auto; try congruence.
      all: try (apply K1; specialize (CU is_reloading Done); cbn in CU; lia).
      all: try (apply K2; specialize (CU is_breplay Done); cbn in CU; lia).
      * inversion H; subst. cbn in H0. eapply KV; eauto.
      * inversion H; subst. cbn in H0. eapply KC; eauto.
      * destruct KU as (v0 & Hv0 & Hm0); auto.
        { specialize (CU is_reloaded Done); cbn in CU; lia. }
        inversion Hv0; subst. eexists. split; [reflexivity|]. cbn. exact Hm0.
  - (* RSleep *)
    destruct (Z.leb due (now s)); [|discriminate]. inv_some H.
    constructor; cbn; intros; auto; try congruence.
    all: try (apply K1; specialize (CU is_reloading (RWant due)); cbn in CU; lia).
    all: try (apply K2; specialize (CU is_breplay (RWant due)); cbn in CU; lia).
    all: try (apply KU; auto; specialize (CU is_reloaded (RWant due)); cbn in CU; lia).
    all: eauto.
  - (* RWant *)
    destruct (lock_free s); [|discriminate]. inv_some H.
    constructor; cbn; intros; auto; try congruence.
    all: try (apply K1; specialize (CU is_reloading (RHold due)); cbn in CU; lia).
    all: try (apply K2; specialize (CU is_breplay (RHold due)); cbn in CU; lia).
    all: try (apply KU; auto; specialize (CU is_reloaded (RHold due)); cbn in CU; lia).
    all: eauto.
  - (* RHold *)
    inv_some H.
    assert (Hh : count holds (tasks s) = 1%nat).
    { pose proof (count_nth_pos holds _ _ _ Hn eq_refl). lia. }
    assert (Hr0 : count is_reloaded (tasks s) = 0%nat).
    { destruct (count is_reloaded (tasks s)) eqn:E; [reflexivity|]. exfalso.
      (* the holder is this RHold task; a SReloaded task would be a second holder *)
      clear - Hn Hh E.
      revert i Hn Hh E. induction (tasks s) as [|q t IH]; intros [|i] Hn Hh E; cbn in *; try discriminate.
      - injection Hn as ->. cbn in *. pose proof (count_le is_reloaded holds t reloaded_holds). lia.
      - destruct q; cbn in *; try (eapply IH; eauto; fail); try lia;
          pose proof (count_nth_pos holds _ _ _ Hn eq_refl); lia. }
    destruct (release_check tau s) eqn:Hrc.
    + unfold release_check in Hrc. apply andb_prop in Hrc. destruct Hrc as (Hi & Ha).
      assert (Hidle : idle_since s <> None) by (destruct (idle_since s); [discriminate|discriminate]).
      destruct (KU Ha Hidle Hr0) as (v & Hv & Hm).
      destruct (KV _ _ Hv Hm) as (Hb & Hrt).
      assert (Hnb : has_busy s = false).
      { unfold has_busy. rewrite Hb, Hv. cbn. rewrite Hrt. reflexivity. }
      constructor; cbn; rewrite ?Hnb; intros; auto; try congruence; try lia.
      all: try (destruct K2 as (? & ?); [specialize (CU is_breplay Done); cbn in CU; lia|congruence]).
    + constructor; cbn; intros; auto; try congruence.
      all: try (apply K1; specialize (CU is_reloading Done); cbn in CU; lia).
      all: try (apply K2; specialize (CU is_breplay Done); cbn in CU; lia).
      all: try (apply KU; auto; specialize (CU is_reloaded Done); cbn in CU; lia).
      all: eauto.
  - (* BReplay *)
    destruct K2 as (Ha & Hi); [eapply count_nth_pos; eauto|].
    destruct (run_workflow s) as [s1 ok] eqn:Hrw. destruct ok.
    + apply run_workflow_ok in Hrw. destruct Hrw as (Hl & ->). inv_some H.
      assert (Hg0 : count is_reloading (tasks s) = 0%nat).
      { destruct (race_now_false _ Hrace) as [Hc|Hc]; [exact Hc|].
        pose proof (count_nth_pos is_breplay _ _ _ Hn eq_refl). lia. }
      constructor; cbn; intros; auto; try congruence; try lia.
      all: try (specialize (CU is_reloading Done); cbn in CU; lia).
      all: try (pose proof (count_nth_pos is_breplay _ _ _ Hn eq_refl);
                specialize (CU is_breplay Done); cbn in CU; lia).
      * split; [specialize (K5b Ha); lia|discriminate].
      * inversion H; subst. cbn in H0. discriminate.
      * inversion H; subst. cbn in H0. congruence.
    + apply run_workflow_fail in Hrw. destruct Hrw as (Hl & _). specialize (G2 Ha). contradiction.
  - discriminate.
Qed.
