(* Proofs about M-HandlerStore (C24).
   A: filter matching — the memory predicate, the SQL WHERE clauses and the declarative reading agree.
   B: query / delete return / remove exactly the matching handlers, on both stores.
   C: the two stores are observationally equal on every operation sequence whose deletes carry a filter.
   D: the eviction queue is exactly the completed handlers in completion order; retention. *)
From Coq Require Import List ZArith Bool String Lia Btauto.
From WF Require Import Generated Model.HandlerStore.
Import ListNotations.
Open Scope list_scope.
Open Scope Z_scope.

(* ------------------------------------------------------------------------------------------ *)
(* A. matching                                                                                  *)
Lemma zin_In : forall x l, zin x l = true <-> In x l.
Proof.
  intros x l. unfold zin. rewrite existsb_exists. split.
  - intros [y [Hy He]]. apply Z.eqb_eq in He. subst. exact Hy.
  - intro H. exists x. split; [exact H | apply Z.eqb_refl].
Qed.

Lemma zin_false : forall x l, zin x l = false <-> ~ In x l.
Proof. intros x l. rewrite <- zin_In. destruct (zin x l); split; congruence. Qed.

Lemma list_filter_ok_spec : forall f v,
  list_filter_ok f v = true <-> (forall l, f = Some l -> exists x, v = Some x /\ In x l).
Proof.
  intros [[|a l]|] v; cbn -[zin].
  - split; [discriminate|]. intro H. destruct (H [] eq_refl) as [x [_ []]].
  - destruct v as [x|]; split.
    + intros H l' E. inversion E; subst. exists x. split; [reflexivity|]. apply zin_In. exact H.
    + intro H. destruct (H _ eq_refl) as [y [E Hy]]. inversion E; subst. apply zin_In. exact Hy.
    + discriminate.
    + intro H. destruct (H _ eq_refl) as [y [E _]]. discriminate.
  - split; [intros _ l E; discriminate | reflexivity].
Qed.

(* "matching every given filter", read declaratively *)
Definition accepts (q : hquery) (h : handler) : Prop :=
  (forall l, q_ids q = Some l -> In (h_id h) l) /\
  (forall l, q_runs q = Some l -> exists r, h_run h = Some r /\ In r l) /\
  (forall l, q_wfs q = Some l -> In (h_wf h) l) /\
  (forall l, q_sts q = Some l -> In (h_status h) l) /\
  (forall b, q_idle q = Some b -> h_idle h = b).

Theorem mem_matches_accepts : forall h q, mem_matches h q = true <-> accepts q h.
Proof.
  intros h q. unfold mem_matches, accepts. rewrite !andb_true_iff, !list_filter_ok_spec.
  split.
  - intros [[[[H1 H2] H3] H4] H5]. repeat split.
    + intros l E. destruct (H1 l E) as [x [Ex Hx]]. inversion Ex; subst. exact Hx.
    + exact H2.
    + intros l E. destruct (H3 l E) as [x [Ex Hx]]. inversion Ex; subst. exact Hx.
    + intros l E. destruct (H4 l E) as [x [Ex Hx]]. inversion Ex; subst. exact Hx.
    + intros b E. rewrite E in H5. symmetry. apply Bool.eqb_prop. exact H5.
  - intros [H1 [H2 [H3 [H4 H5]]]]. repeat split.
    + intros l E. exists (h_id h). split; [reflexivity | exact (H1 l E)].
    + exact H2.
    + intros l E. exists (h_wf h). split; [reflexivity | exact (H3 l E)].
    + intros l E. exists (h_status h). split; [reflexivity | exact (H4 l E)].
    + destruct (q_idle q) as [b|]; [|reflexivity]. rewrite (H5 b eq_refl). apply Bool.eqb_reflx.
Qed.

Definition has_empty_filter (q : hquery) : Prop :=
  q_ids q = Some [] \/ q_runs q = Some [] \/ q_wfs q = Some [] \/ q_sts q = Some [].

Theorem empty_filter_matches_nothing : forall q h, has_empty_filter q -> mem_matches h q = false.
Proof.
  intros q h H. destruct (mem_matches h q) eqn:E; [|reflexivity].
  apply mem_matches_accepts in E. destruct E as [H1 [H2 [H3 [H4 _]]]].
  destruct H as [H|[H|[H|H]]].
  - destruct (H1 _ H).
  - destruct (H2 _ H) as [r [_ []]].
  - destruct (H3 _ H).
  - destruct (H4 _ H).
Qed.

(* the WHERE clause built by _build_filters selects exactly the rows the memory predicate accepts;
   `None` (the store returns [] / 0 without touching the database) only when nothing can match *)
Lemma sql_matches_eq : forall q h,
  match build_filters q with
  | None => mem_matches h q = false
  | Some cl => where_ok cl h = mem_matches h q
  end.
Proof.
  intros [[[|a1 l1]|] [[|a2 l2]|] [[|a3 l3]|] [[|a4 l4]|] [[|]|]] [i w s [r|] idle e d];
    unfold mem_matches, build_filters, add_in, where_ok, list_filter_ok;
    cbn -[zin]; try reflexivity; destruct idle; cbn -[zin]; try reflexivity;
    rewrite ?andb_true_r, ?andb_false_r; try reflexivity; btauto.
Qed.

Lemma build_filters_no_clause : forall q, build_filters q = Some [] -> has_filter q = false.
Proof.
  intros [[[|a1 l1]|] [[|a2 l2]|] [[|a3 l3]|] [[|a4 l4]|] [[|]|]]; cbn; intro H;
    try discriminate; reflexivity.
Qed.

Theorem empty_filter_sql_none : forall q, has_empty_filter q -> build_filters q = None.
Proof.
  intros [[[|a1 l1]|] [[|a2 l2]|] [[|a3 l3]|] [[|a4 l4]|] i]; cbn; intros [H|[H|[H|H]]];
    try discriminate; reflexivity.
Qed.

(* ------------------------------------------------------------------------------------------ *)
(* B. query and delete are exact                                                                *)
Lemma filter_none : forall (A : Type) (f : A -> bool) l, (forall x, f x = false) -> filter f l = [].
Proof. intros A f l H. induction l as [|a l IH]; cbn; [reflexivity|]. rewrite H. exact IH. Qed.

Lemma sql_query_eq : forall q rows, sql_query q rows = filter (fun g => mem_matches g q) rows.
Proof.
  intros q rows. unfold sql_query.
  destruct (build_filters q) as [cl|] eqn:E.
  - apply filter_ext. intro g. pose proof (sql_matches_eq q g) as H. rewrite E in H. exact H.
  - symmetry. apply filter_none. intro g. pose proof (sql_matches_eq q g) as H. rewrite E in H. exact H.
Qed.

Lemma sql_delete_eq : forall q rows, has_filter q = true ->
  sql_delete q rows = (Z.of_nat (List.length (filter (fun g => mem_matches g q) rows)),
                       filter (fun g => negb (mem_matches g q)) rows).
Proof.
  intros q rows Hf. unfold sql_delete.
  destruct (build_filters q) as [cl|] eqn:E.
  - assert (Hw : forall g, where_ok cl g = mem_matches g q).
    { intro g. pose proof (sql_matches_eq q g) as H. rewrite E in H. exact H. }
    destruct cl as [|c cl'].
    + apply build_filters_no_clause in E. congruence.
    + f_equal.
      * f_equal. f_equal. apply filter_ext. exact Hw.
      * apply filter_ext. intro g. rewrite Hw. reflexivity.
  - assert (Hw : forall g, mem_matches g q = false).
    { intro g. pose proof (sql_matches_eq q g) as H. rewrite E in H. exact H. }
    rewrite (filter_none _ _ rows Hw). cbn. f_equal.
    symmetry. rewrite <- (filter_ext (fun _ => true)); [|intro g; rewrite Hw; reflexivity].
    clear. induction rows as [|a l IH]; cbn; [reflexivity | rewrite IH; reflexivity].
Qed.

Theorem mem_query_exact : forall q m g,
  In g (mem_query q m) <-> In g (m_handlers m) /\ accepts q g.
Proof. intros q m g. unfold mem_query. rewrite filter_In, mem_matches_accepts. reflexivity. Qed.

Theorem sql_query_exact : forall q rows g,
  In g (sql_query q rows) <-> In g rows /\ accepts q g.
Proof. intros q rows g. rewrite sql_query_eq, filter_In, mem_matches_accepts. reflexivity. Qed.

Theorem query_empty_filter_returns_nothing : forall q m rows,
  has_empty_filter q -> mem_query q m = [] /\ sql_query q rows = [].
Proof.
  intros q m rows H. split.
  - unfold mem_query. apply filter_none. intro g. apply empty_filter_matches_nothing. exact H.
  - unfold sql_query. rewrite (empty_filter_sql_none q H). reflexivity.
Qed.

Lemma negb_matches_accepts : forall g q, negb (mem_matches g q) = true <-> ~ accepts q g.
Proof.
  intros g q. rewrite <- mem_matches_accepts. destruct (mem_matches g q); cbn; split; congruence.
Qed.

Theorem mem_delete_exact : forall q m,
  fst (mem_delete q m) = Z.of_nat (List.length (mem_query q m)) /\
  forall g, In g (m_handlers (snd (mem_delete q m))) <-> In g (m_handlers m) /\ ~ accepts q g.
Proof.
  intros q m. split; [reflexivity|]. intro g. cbn. rewrite filter_In, negb_matches_accepts. reflexivity.
Qed.

Theorem sql_delete_exact : forall q rows, has_filter q = true ->
  fst (sql_delete q rows) = Z.of_nat (List.length (sql_query q rows)) /\
  forall g, In g (snd (sql_delete q rows)) <-> In g rows /\ ~ accepts q g.
Proof.
  intros q rows Hf. rewrite (sql_delete_eq q rows Hf), sql_query_eq. split; [reflexivity|].
  intro g. cbn. rewrite filter_In, negb_matches_accepts. reflexivity.
Qed.

(* ------------------------------------------------------------------------------------------ *)
(* C. the stores are observationally equal (memory store without a completion cap)              *)
Lemma mem_update_uncapped : forall h m, m_max m = None ->
  m_handlers (mem_update h m) = upsert h (m_handlers m) /\ m_max (mem_update h m) = None.
Proof.
  intros h m H. unfold mem_update. rewrite H.
  destruct (is_terminal (h_status h)); cbn; split; reflexivity.
Qed.

Lemma step_equiv : forall o m rows,
  m_max m = None -> m_handlers m = rows ->
  match o with ODelete q => has_filter q = true | _ => True end ->
  snd (mem_step o m) = snd (sql_step o rows) /\
  m_handlers (fst (mem_step o m)) = fst (sql_step o rows) /\
  m_max (fst (mem_step o m)) = None.
Proof.
  intros o m rows Hmax Hrows Hf. destruct o as [h|q|q|u]; cbn [mem_step sql_step].
  - cbn. destruct (mem_update_uncapped h m Hmax) as [A B]. rewrite A, Hrows. repeat split. exact B.
  - cbn. rewrite sql_query_eq. unfold mem_query. rewrite Hrows. repeat split. exact Hmax.
  - rewrite (sql_delete_eq q rows Hf). unfold mem_delete. cbn. rewrite Hrows. repeat split. exact Hmax.
  - cbn. unfold mem_set_status, sql_set_status. rewrite sql_query_eq. unfold mem_query. rewrite Hrows.
    destruct (filter (fun g => mem_matches g (by_run (u_run u))) rows) as [|g t].
    + repeat split; assumption.
    + destruct (mem_update_uncapped (apply_supd u g) m Hmax) as [A B]. rewrite A, Hrows.
      repeat split. exact B.
Qed.

Theorem stores_equivalent_from : forall ops m rows,
  filtered_deletes ops = true -> m_max m = None -> m_handlers m = rows ->
  snd (mem_run ops m) = snd (sql_run ops rows) /\
  m_handlers (fst (mem_run ops m)) = fst (sql_run ops rows).
Proof.
  induction ops as [|o t IH]; intros m rows Hf Hmax Hrows; cbn [mem_run sql_run].
  - cbn. split; [reflexivity | exact Hrows].
  - cbn [filtered_deletes forallb] in Hf. apply andb_true_iff in Hf. destruct Hf as [Ho Ht].
    assert (Ho' : match o with ODelete q => has_filter q = true | _ => True end).
    { destruct o; try exact I. exact Ho. }
    destruct (step_equiv o m rows Hmax Hrows Ho') as [A [B C]].
    destruct (mem_step o m) as [m1 r1]. destruct (sql_step o rows) as [s1 r2]. cbn in A, B, C.
    destruct (IH m1 s1 Ht C B) as [D E].
    destruct (mem_run t m1) as [m2 rs1]. destruct (sql_run t s1) as [s2 rs2]. cbn in D, E |- *.
    split; [congruence | exact E].
Qed.

Theorem stores_equivalent : forall ops,
  filtered_deletes ops = true ->
  snd (mem_run ops (mem_empty None)) = snd (sql_run ops []) /\
  m_handlers (fst (mem_run ops (mem_empty None))) = fst (sql_run ops []).
Proof. intros ops H. apply stores_equivalent_from; [exact H | reflexivity | reflexivity]. Qed.

(* ------------------------------------------------------------------------------------------ *)
(* D. the eviction queue and retention (memory store)                                           *)
Definition ids (l : list handler) : list Z := map h_id l.
Definition terminal (g : handler) : bool := is_terminal (h_status g).
Definition lastn {A} (n : nat) (l : list A) : list A := skipn (List.length l - n) l.

(* ---- generic list facts ---- *)
Lemma filter_all : forall (A : Type) (f : A -> bool) l, (forall x, In x l -> f x = true) -> filter f l = l.
Proof.
  intros A f l. induction l as [|a l IH]; intro H; cbn; [reflexivity|].
  rewrite (H a (or_introl eq_refl)). f_equal. apply IH. intros x Hx. apply H. right. exact Hx.
Qed.

Lemma NoDup_app_disjoint : forall (A : Type) (l1 l2 : list A),
  NoDup l1 -> NoDup l2 -> (forall x, In x l1 -> In x l2 -> False) -> NoDup (l1 ++ l2).
Proof.
  intros A l1 l2 H1 H2 Hd. induction l1 as [|a l1 IH]; cbn; [exact H2|].
  inversion H1 as [|x l Hx Hl]; subst. constructor.
  - intro Hin. apply in_app_or in Hin. destruct Hin as [Hin|Hin]; [exact (Hx Hin)|].
    apply (Hd a); [left; reflexivity | exact Hin].
  - apply IH; [exact Hl|]. intros x Hx1 Hx2. apply (Hd x); [right; exact Hx1 | exact Hx2].
Qed.

Lemma NoDup_map_filter : forall (A B : Type) (f : A -> B) (p : A -> bool) l,
  NoDup (map f l) -> NoDup (map f (filter p l)).
Proof.
  intros A B f p l. induction l as [|a l IH]; intro H; cbn; [constructor|].
  inversion H as [|x xs Hx Hxs]; subst. destruct (p a); cbn.
  - constructor; [|apply IH; exact Hxs]. intro Hin. apply Hx.
    apply in_map_iff in Hin. destruct Hin as [y [Ey Hy]]. apply filter_In in Hy.
    apply in_map_iff. exists y. tauto.
  - apply IH. exact Hxs.
Qed.

Lemma NoDup_skipn : forall (A : Type) k (l : list A), NoDup l -> NoDup (skipn k l).
Proof.
  intros A k. induction k as [|k IH]; intros l H; [exact H|].
  destruct l as [|a l]; [constructor|]. cbn. apply IH. inversion H; assumption.
Qed.

Lemma In_skipn : forall (A : Type) k (l : list A) x, In x (skipn k l) -> In x l.
Proof. intros A k l x H. rewrite <- (firstn_skipn k l). apply in_or_app. right. exact H. Qed.

Lemma In_firstn : forall (A : Type) k (l : list A) x, In x (firstn k l) -> In x l.
Proof. intros A k l x H. rewrite <- (firstn_skipn k l). apply in_or_app. left. exact H. Qed.

Lemma NoDup_firstn_skipn_disjoint : forall (A : Type) k (l : list A) x,
  NoDup l -> In x (firstn k l) -> In x (skipn k l) -> False.
Proof.
  intros A k. induction k as [|k IH]; intros l x H H1 H2; [destruct H1|].
  destruct l as [|a l]; [destruct H1|]. cbn in H1, H2. inversion H as [|y ys Hy Hys]; subst.
  destruct H1 as [->|H1].
  - apply Hy. eapply In_skipn. exact H2.
  - exact (IH l x Hys H1 H2).
Qed.

(* ---- upsert ---- *)
Lemma ids_upsert_subset : forall h l x, In x (ids (upsert h l)) -> x = h_id h \/ In x (ids l).
Proof.
  intros h l x. induction l as [|a t IH]; cbn.
  - intros [H|[]]. left. symmetry. exact H.
  - destruct (h_id a =? h_id h) eqn:E; cbn.
    + apply Z.eqb_eq in E. intros [H|H]; [left; symmetry; exact H | right; right; exact H].
    + intros [H|H]; [right; left; exact H|]. destruct (IH H) as [A|B]; [left; exact A | right; right; exact B].
Qed.

Lemma NoDup_ids_upsert : forall h l, NoDup (ids l) -> NoDup (ids (upsert h l)).
Proof.
  intros h l. induction l as [|a t IH]; intro H; cbn.
  - constructor; [intros [] | constructor].
  - inversion H as [|x xs Hx Hxs]; subst. destruct (h_id a =? h_id h) eqn:E; cbn.
    + apply Z.eqb_eq in E. rewrite <- E. constructor; assumption.
    + constructor; [|apply IH; exact Hxs]. intro Hin.
      destruct (ids_upsert_subset h t _ Hin) as [A|B].
      * apply Z.eqb_neq in E. congruence.
      * exact (Hx B).
Qed.

Lemma In_upsert : forall h l g, NoDup (ids l) ->
  (In g (upsert h l) <-> g = h \/ (In g l /\ h_id g <> h_id h)).
Proof.
  intros h l g. induction l as [|a t IH]; intro H; cbn.
  - split; [intros [E|[]]; left; symmetry; exact E | intros [E|[[] _]]; left; symmetry; exact E].
  - inversion H as [|x xs Hx Hxs]; subst. destruct (h_id a =? h_id h) eqn:E; cbn.
    + apply Z.eqb_eq in E. split.
      * intros [A|A]; [left; symmetry; exact A|]. right. split; [right; exact A|].
        intro Heq. apply Hx. rewrite E, <- Heq. apply in_map. exact A.
      * intros [A|[[A|A] B]]; [left; symmetry; exact A | subst a; congruence | right; exact A].
    + apply Z.eqb_neq in E. rewrite (IH Hxs). split.
      * intros [A|[A|[A B]]]; [right; split; [left; exact A | subst a; exact E] | left; exact A | right; tauto].
      * intros [A|[[A|A] B]]; [right; left; exact A | left; exact A | right; right; tauto].
Qed.

(* ---- remove_first (deque.remove) on a queue without repetition ---- *)
Lemma In_remove_first : forall i q x, NoDup q -> (In x (remove_first i q) <-> In x q /\ x <> i).
Proof.
  intros i q x. induction q as [|a t IH]; intro H; cbn; [tauto|].
  inversion H as [|y ys Hy Hys]; subst. destruct (a =? i) eqn:E.
  - apply Z.eqb_eq in E. subst a. split.
    + intro A. split; [right; exact A | intro; subst x; exact (Hy A)].
    + intros [[A|A] B]; [congruence | exact A].
  - apply Z.eqb_neq in E. cbn. rewrite (IH Hys). split.
    + intros [A|[A B]]; [split; [left; exact A | subst a; exact E] | tauto].
    + intros [[A|A] B]; [left; exact A | right; tauto].
Qed.

Lemma NoDup_remove_first : forall i q, NoDup q -> NoDup (remove_first i q).
Proof.
  intros i q. induction q as [|a t IH]; intro H; cbn; [constructor|].
  inversion H as [|y ys Hy Hys]; subst. destruct (a =? i); [exact Hys|].
  constructor; [|apply IH; exact Hys]. intro A. apply (In_remove_first i t a Hys) in A. tauto.
Qed.

Lemma length_remove_first : forall i q, (List.length (remove_first i q) <= List.length q)%nat.
Proof.
  intros i q. induction q as [|a t IH]; cbn; [lia|]. destruct (a =? i); cbn; lia.
Qed.

(* ---- lookup / drop_ids ---- *)
Lemma lookup_In : forall hs g, NoDup (ids hs) -> In g hs -> lookup (h_id g) hs = Some g.
Proof.
  intros hs g. unfold lookup. induction hs as [|a t IH]; intros H Hin; [destruct Hin|]. cbn.
  inversion H as [|x xs Hx Hxs]; subst. destruct Hin as [->|Hin].
  - rewrite Z.eqb_refl. reflexivity.
  - destruct (h_id a =? h_id g) eqn:E; [|apply IH; assumption].
    apply Z.eqb_eq in E. exfalso. apply Hx. rewrite E. apply in_map. exact Hin.
Qed.

Lemma In_drop_ids : forall l hs g, In g (drop_ids l hs) <-> In g hs /\ ~ In (h_id g) l.
Proof.
  intros l hs g. unfold drop_ids. rewrite filter_In. rewrite negb_true_iff, zin_false. reflexivity.
Qed.

Lemma drop_ids_nil : forall hs, drop_ids [] hs = hs.
Proof. intro hs. unfold drop_ids. apply filter_all. reflexivity. Qed.

Lemma drop_ids_cons : forall i k hs, drop_ids k (drop_ids [i] hs) = drop_ids (i :: k) hs.
Proof.
  intros i k hs. unfold drop_ids. induction hs as [|a t IH]; cbn -[zin]; [reflexivity|].
  unfold zin at 2 4. cbn. rewrite orb_false_r.
  destruct (h_id a =? i) eqn:E; cbn -[zin]; [exact IH|].
  fold (zin (h_id a) k). destruct (zin (h_id a) k); cbn -[zin]; [exact IH | f_equal; exact IH].
Qed.

(* ---- the eviction loop on a queue that lists live completed handlers only ---- *)
Definition live_done (q : list Z) (hs : list handler) : Prop :=
  forall i, In i q -> exists g, In g hs /\ h_id g = i /\ terminal g = true.

Lemma evict_char : forall n q hs,
  NoDup q -> NoDup (ids hs) -> live_done q hs ->
  evict_loop n q hs = (skipn (List.length q - n) q, drop_ids (firstn (List.length q - n) q) hs).
Proof.
  intros n q. induction q as [|i q' IH]; intros hs Hq Hh Hl.
  - cbn. rewrite drop_ids_nil. destruct (0 - n)%nat; reflexivity.
  - cbn [evict_loop]. destruct (List.length (i :: q') <=? n)%nat eqn:E.
    + apply Nat.leb_le in E. replace (List.length (i :: q') - n)%nat with 0%nat by lia.
      cbn [skipn firstn]. rewrite drop_ids_nil. reflexivity.
    + apply Nat.leb_gt in E. cbn [List.length] in E |- *.
      destruct (Hl i (or_introl eq_refl)) as [g [Hg [Hid Ht]]].
      rewrite <- Hid. rewrite (lookup_In hs g Hh Hg). unfold terminal in Ht. rewrite Ht. rewrite Hid.
      inversion Hq as [|x xs Hx Hxs]; subst x xs.
      rewrite IH.
      * replace (S (List.length q') - n)%nat with (S (List.length q' - n)) by lia.
        cbn [skipn firstn]. rewrite drop_ids_cons. reflexivity.
      * exact Hxs.
      * unfold ids, drop_ids. apply NoDup_map_filter. exact Hh.
      * intros j Hj. destruct (Hl j (or_intror Hj)) as [gj [Hgj [Hidj Htj]]].
        exists gj. split; [|split; assumption]. apply In_drop_ids. split; [exact Hgj|].
        rewrite Hidj. intros [A|[]]. apply Hx. rewrite A. exact Hj.
Qed.

(* ---- the invariant ---- *)
Definition Inv (m : mem) : Prop :=
  NoDup (ids (m_handlers m)) /\ NoDup (m_queue m) /\
  (forall i, In i (m_queue m) <-> exists g, In g (m_handlers m) /\ h_id g = i /\ terminal g = true) /\
  (forall n, m_max m = Some n -> (List.length (m_queue m) <= n)%nat).

Lemma Inv_empty : forall mx, Inv (mem_empty mx).
Proof.
  intro mx. unfold Inv, mem_empty. cbn. repeat split; try constructor.
  - intros [].
  - intros [g [[] _]].
  - intros n _. lia.
Qed.

(* what a terminal upsert makes of the queue before eviction: the handler moves to the newest end *)
Definition recency (h : handler) (m : mem) : list Z := remove_first (h_id h) (m_queue m) ++ [h_id h].

Lemma recency_facts : forall h m, Inv m -> terminal h = true ->
  NoDup (recency h m) /\
  (forall i, In i (recency h m) <->
             exists g, In g (upsert h (m_handlers m)) /\ h_id g = i /\ terminal g = true).
Proof.
  intros h m [Hh [Hq [Hiff Hcap]]] Ht. unfold recency. split.
  - apply NoDup_app_disjoint.
    + apply NoDup_remove_first. exact Hq.
    + constructor; [intros [] | constructor].
    + intros x Hx [A|[]]. subst x. apply (In_remove_first _ _ _ Hq) in Hx. tauto.
  - intro i. rewrite in_app_iff. rewrite (In_remove_first _ _ _ Hq). rewrite Hiff. split.
    + intros [[[g [Hg [Hid Hg2]]] Hne]|[A|[]]].
      * exists g. split; [|split; assumption]. apply In_upsert; [exact Hh|]. right. split; [exact Hg | congruence].
      * exists h. split; [|split; [exact A | exact Ht]]. apply In_upsert; [exact Hh|]. left. reflexivity.
    + intros [g [Hg [Hid Hg2]]]. apply In_upsert in Hg; [|exact Hh]. destruct Hg as [->|[Hg Hne]].
      * right. left. exact Hid.
      * left. split; [exists g; tauto | congruence].
Qed.

(* ---- update ---- *)
Lemma mem_update_nonterminal : forall h m, terminal h = false ->
  mem_update h m = Mem (upsert h (m_handlers m)) (remove_first (h_id h) (m_queue m)) (m_max m).
Proof. intros h m H. unfold mem_update. unfold terminal in H. rewrite H. reflexivity. Qed.

Lemma mem_update_terminal_uncapped : forall h m, terminal h = true -> m_max m = None ->
  mem_update h m = Mem (upsert h (m_handlers m)) (recency h m) None.
Proof. intros h m H Hm. unfold mem_update. unfold terminal in H. rewrite H, Hm. reflexivity. Qed.

(* Retention, exact form.  A terminal upsert under max_completed = n leaves in the queue the n most
   recently completed handlers (the upserted one newest, the others in their previous order) and
   removes from the store exactly the completed handlers before them. *)
Theorem mem_update_terminal_capped : forall h m n, Inv m -> terminal h = true -> m_max m = Some n ->
  mem_update h m =
  Mem (drop_ids (firstn (List.length (recency h m) - n) (recency h m)) (upsert h (m_handlers m)))
      (lastn n (recency h m)) (Some n).
Proof.
  intros h m n HI Ht Hm. destruct (recency_facts h m HI Ht) as [Hnd Hiff].
  unfold mem_update. unfold terminal in Ht. rewrite Ht, Hm. fold (recency h m).
  rewrite evict_char.
  - reflexivity.
  - exact Hnd.
  - apply NoDup_ids_upsert. destruct HI as [A _]. exact A.
  - intros i Hi. apply Hiff. exact Hi.
Qed.

Lemma Inv_update : forall h m, Inv m -> Inv (mem_update h m).
Proof.
  intros h m HI. destruct (terminal h) eqn:Ht.
  - destruct (recency_facts h m HI Ht) as [Hnd Hiff].
    assert (Hh1 : NoDup (ids (upsert h (m_handlers m)))).
    { apply NoDup_ids_upsert. destruct HI as [A _]. exact A. }
    destruct (m_max m) as [n|] eqn:Hm.
    + rewrite (mem_update_terminal_capped h m n HI Ht Hm). unfold Inv, lastn. cbn.
      set (q2 := recency h m) in *. set (k := (List.length q2 - n)%nat).
      split; [|split; [|split]].
      * unfold ids, drop_ids. apply NoDup_map_filter. exact Hh1.
      * apply NoDup_skipn. exact Hnd.
      * intro i. split.
        -- intro Hi. destruct (proj1 (Hiff i) (In_skipn _ _ _ _ Hi)) as [g [Hg [Hid Hg2]]].
           exists g. split; [|split; assumption]. apply In_drop_ids. split; [exact Hg|].
           rewrite Hid. intro Hf. exact (NoDup_firstn_skipn_disjoint _ k q2 i Hnd Hf Hi).
        -- intros [g [Hg [Hid Hg2]]]. apply In_drop_ids in Hg. destruct Hg as [Hg Hnf].
           assert (Hin : In i q2). { apply Hiff. exists g. tauto. }
           rewrite <- (firstn_skipn k q2) in Hin. apply in_app_or in Hin.
           destruct Hin as [A|A]; [|exact A]. exfalso. apply Hnf. rewrite Hid. exact A.
      * intros n' E. inversion E; subst n'. rewrite skipn_length. unfold k. lia.
    + rewrite (mem_update_terminal_uncapped h m Ht Hm). unfold Inv. cbn.
      split; [exact Hh1|]. split; [exact Hnd|]. split; [exact Hiff|]. intros n E. discriminate.
  - rewrite (mem_update_nonterminal h m Ht). destruct HI as [Hh [Hq [Hiff Hcap]]]. unfold Inv. cbn.
    split; [apply NoDup_ids_upsert; exact Hh|]. split; [apply NoDup_remove_first; exact Hq|]. split.
    + intro i. rewrite (In_remove_first _ _ _ Hq), Hiff. split.
      * intros [[g [Hg [Hid Hg2]]] Hne]. exists g. split; [|split; assumption].
        apply In_upsert; [exact Hh|]. right. split; [exact Hg | congruence].
      * intros [g [Hg [Hid Hg2]]]. apply In_upsert in Hg; [|exact Hh]. destruct Hg as [->|[Hg Hne]].
        -- congruence.
        -- split; [exists g; tauto | congruence].
    + intros n E. specialize (Hcap n E). pose proof (length_remove_first (h_id h) (m_queue m)). lia.
Qed.

(* ---- delete ---- *)
Lemma ids_inj : forall hs a b, NoDup (ids hs) -> In a hs -> In b hs -> h_id a = h_id b -> a = b.
Proof.
  intros hs a b H Ha Hb E. pose proof (lookup_In hs a H Ha) as A. pose proof (lookup_In hs b H Hb) as B.
  rewrite E in A. congruence.
Qed.

Lemma fold_remove_facts : forall del q,
  NoDup q ->
  let q' := fold_left (fun qu g => remove_first (h_id g) qu) del q in
  NoDup q' /\ (forall x, In x q' <-> In x q /\ ~ In x (ids del)) /\ (List.length q' <= List.length q)%nat.
Proof.
  induction del as [|d t IH]; intros q Hq; cbn.
  - split; [exact Hq|]. split; [intro x; tauto | lia].
  - destruct (IH (remove_first (h_id d) q) (NoDup_remove_first _ _ Hq)) as [A [B C]].
    split; [exact A|]. split.
    + intro x. rewrite B. rewrite (In_remove_first _ _ _ Hq). split.
      * intros [[H1 H2] H3]. split; [exact H1|]. intros [E|E]; [congruence | exact (H3 E)].
      * intros [H1 H2]. split; [split; [exact H1|] |]; intro E; apply H2; [left; congruence | right; exact E].
    + pose proof (length_remove_first (h_id d) q). lia.
Qed.

Lemma Inv_delete : forall q m, Inv m -> Inv (snd (mem_delete q m)).
Proof.
  intros q m [Hh [Hq [Hiff Hcap]]]. unfold mem_delete, Inv. cbn.
  destruct (fold_remove_facts (filter (fun g => mem_matches g q) (m_handlers m)) (m_queue m) Hq) as [A [B C]].
  split; [unfold ids; apply NoDup_map_filter; exact Hh|]. split; [exact A|]. split.
  - intro i. rewrite B, Hiff. split.
    + intros [[g [Hg [Hid Ht]]] Hn]. exists g. split; [|split; assumption].
      apply filter_In. split; [exact Hg|]. destruct (mem_matches g q) eqn:E; [|reflexivity].
      exfalso. apply Hn. rewrite <- Hid. apply in_map. apply filter_In. split; assumption.
    + intros [g [Hg [Hid Ht]]]. apply filter_In in Hg. destruct Hg as [Hg Hm].
      split; [exists g; tauto|]. intro Hin. apply in_map_iff in Hin. destruct Hin as [g' [E Hg']].
      apply filter_In in Hg'. destruct Hg' as [Hg' Hm'].
      assert (g' = g) by (apply (ids_inj (m_handlers m)); [exact Hh | exact Hg' | exact Hg | congruence]).
      subst g'. rewrite Hm' in Hm. discriminate.
  - intros n E. specialize (Hcap n E). lia.
Qed.

Lemma Inv_set_status : forall u m, Inv m -> Inv (mem_set_status u m).
Proof.
  intros u m H. unfold mem_set_status. destruct (mem_query (by_run (u_run u)) m); [exact H|].
  apply Inv_update. exact H.
Qed.

Lemma Inv_step : forall o m, Inv m -> Inv (fst (mem_step o m)).
Proof.
  intros [h|q|q|u] m H; cbn [mem_step].
  - apply Inv_update. exact H.
  - exact H.
  - pose proof (Inv_delete q m H) as A. destruct (mem_delete q m). exact A.
  - apply Inv_set_status. exact H.
Qed.

Theorem Inv_run : forall ops m, Inv m -> Inv (fst (mem_run ops m)).
Proof.
  induction ops as [|o t IH]; intros m H; cbn [mem_run]; [exact H|].
  pose proof (Inv_step o m H) as A. destruct (mem_step o m) as [m1 r]. cbn in A.
  specialize (IH m1 A). destruct (mem_run t m1) as [m2 rs]. exact IH.
Qed.

Theorem Inv_reachable : forall ops mx, Inv (fst (mem_run ops (mem_empty mx))).
Proof. intros ops mx. apply Inv_run. apply Inv_empty. Qed.

(* ---- retention, read off the exact form ---- *)
Theorem update_keeps_nonterminal : forall h m g, Inv m ->
  In g (upsert h (m_handlers m)) -> terminal g = false -> In g (m_handlers (mem_update h m)).
Proof.
  intros h m g HI Hg Hnt. destruct (terminal h) eqn:Ht.
  - destruct (m_max m) as [n|] eqn:Hm.
    + rewrite (mem_update_terminal_capped h m n HI Ht Hm). cbn. apply In_drop_ids. split; [exact Hg|].
      intro Hf. apply In_firstn in Hf. destruct (recency_facts h m HI Ht) as [_ Hiff].
      apply Hiff in Hf. destruct Hf as [g' [Hg' [Hid Ht']]].
      assert (g' = g).
      { apply (ids_inj (upsert h (m_handlers m))); try assumption.
        apply NoDup_ids_upsert. destruct HI as [A _]. exact A. }
      subst g'. congruence.
    + rewrite (mem_update_terminal_uncapped h m Ht Hm). exact Hg.
  - rewrite (mem_update_nonterminal h m Ht). exact Hg.
Qed.

Theorem update_keeps_recent_completions : forall h m n g, Inv m -> terminal h = true -> m_max m = Some n ->
  In g (upsert h (m_handlers m)) -> In (h_id g) (lastn n (recency h m)) ->
  In g (m_handlers (mem_update h m)).
Proof.
  intros h m n g HI Ht Hm Hg Hl. rewrite (mem_update_terminal_capped h m n HI Ht Hm). cbn.
  apply In_drop_ids. split; [exact Hg|]. intro Hf.
  destruct (recency_facts h m HI Ht) as [Hnd _].
  exact (NoDup_firstn_skipn_disjoint _ _ _ _ Hnd Hf Hl).
Qed.

Theorem update_evicts_older_completions : forall h m n g, Inv m -> terminal h = true -> m_max m = Some n ->
  In g (m_handlers (mem_update h m)) -> terminal g = true -> In (h_id g) (lastn n (recency h m)).
Proof.
  intros h m n g HI Ht Hm Hg Hgt. pose proof (Inv_update h m HI) as [_ [_ [Hiff _]]].
  rewrite (mem_update_terminal_capped h m n HI Ht Hm) in Hiff, Hg. cbn in Hiff, Hg.
  apply Hiff. exists g. tauto.
Qed.

Theorem completed_count_bounded : forall m n, Inv m -> m_max m = Some n ->
  (List.length (filter terminal (m_handlers m)) <= n)%nat.
Proof.
  intros m n [Hh [Hq [Hiff Hcap]]] Hm. specialize (Hcap n Hm).
  rewrite <- (map_length h_id). 
  assert (Hincl : incl (map h_id (filter terminal (m_handlers m))) (m_queue m)).
  { intros i Hi. apply in_map_iff in Hi. destruct Hi as [g [E Hg]]. apply filter_In in Hg.
    apply Hiff. exists g. tauto. }
  pose proof (NoDup_incl_length (NoDup_map_filter _ _ h_id terminal _ Hh) Hincl). lia.
Qed.

(* for every history: the eviction queue lists exactly the stored completed handlers, once each,
   and their number never exceeds max_completed *)
Theorem reachable_completed_bounded : forall ops n,
  (List.length (filter terminal (m_handlers (fst (mem_run ops (mem_empty (Some n)))))) <= n)%nat.
Proof.
  intros ops n. apply completed_count_bounded; [apply Inv_reachable|].
  assert (U : forall h m, m_max (mem_update h m) = m_max m).
  { clear. intros h m. unfold mem_update. destruct (is_terminal (h_status h)); [|reflexivity].
    destruct (m_max m); [|reflexivity]. destruct (evict_loop _ _ _). reflexivity. }
  assert (H : forall ops m, m_max (fst (mem_run ops m)) = m_max m).
  { clear - U. induction ops as [|o t IH]; intro m; cbn [mem_run]; [reflexivity|].
    assert (E : m_max (fst (mem_step o m)) = m_max m).
    { destruct o as [h|q|q|u]; cbn [mem_step]; try reflexivity.
      - cbn. apply U.
      - cbn. unfold mem_set_status. destruct (mem_query _ m); [reflexivity | apply U]. }
    destruct (mem_step o m) as [m1 r]. cbn in E. specialize (IH m1).
    destruct (mem_run t m1) as [m2 rs]. cbn in IH |- *. congruence. }
  rewrite H. reflexivity.
Qed.

(* ---- concrete witnesses (non-vacuity, and why the hypotheses are there) ---- *)
Definition ex_done (i : Z) : handler := H i 0 1 (Some i) false None true.
Definition ex_running (i : Z) : handler := H i 0 0 (Some i) false None false.
Definition q_all : hquery := Q None None None None None.

Lemma ex_status_codes : is_terminal 0 = false /\ is_terminal 1 = true /\ is_terminal 2 = true /\
                        is_terminal 3 = true /\ is_terminal 4 = false /\ is_terminal (-1) = false.
Proof. vm_compute. repeat split. Qed.

(* three terminal updates of one handler under max_completed = 2 keep it (the history that the
   unrepaired store lost) *)
Lemma ex_repeated_completion_kept :
  m_handlers (fst (mem_run [OUpdate (ex_done 7); OUpdate (ex_done 7); OUpdate (ex_done 7)] (mem_empty (Some 2%nat))))
  = [ex_done 7].
Proof. vm_compute. reflexivity. Qed.

(* a deleted or re-opened completion does not use up a slot *)
Lemma ex_deleted_completion_frees_slot :
  map h_id (m_handlers (fst (mem_run [OUpdate (ex_done 1); OUpdate (ex_done 2);
                                      ODelete (Q (Some [2]) None None None None); OUpdate (ex_done 3)]
                                     (mem_empty (Some 2%nat))))) = [1; 3]
  /\ map h_id (m_handlers (fst (mem_run [OUpdate (ex_done 1); OUpdate (ex_done 2);
                                         OUpdate (ex_running 2); OUpdate (ex_done 3)]
                                        (mem_empty (Some 2%nat))))) = [1; 2; 3].
Proof. vm_compute. split; reflexivity. Qed.

(* the oldest completion goes when a third distinct handler completes; running handlers stay *)
Lemma ex_oldest_completion_evicted :
  map h_id (m_handlers (fst (mem_run [OUpdate (ex_done 1); OUpdate (ex_running 5); OUpdate (ex_done 2);
                                      OUpdate (ex_done 1); OUpdate (ex_done 3)]
                                     (mem_empty (Some 2%nat))))) = [1; 5; 3].
Proof. vm_compute. reflexivity. Qed.

(* the hypothesis of the equivalence theorem is needed: a delete without any filter empties the
   memory store and leaves the SQLite store untouched *)
Lemma ex_unfiltered_delete_differs :
  let ops := [OUpdate (ex_running 1); ODelete q_all; OQuery q_all] in
  filtered_deletes ops = false /\
  snd (mem_run ops (mem_empty None)) = [RUnit; RCount 1; RList []] /\
  snd (sql_run ops []) = [RUnit; RCount 0; RList [ex_running 1]].
Proof. vm_compute. repeat split. Qed.

Lemma ex_equivalence_applies :
  filtered_deletes [OUpdate (ex_done 1); OSetStatus (SU 1 (Some 0) None (Some true));
                    ODelete (Q None None None (Some [0]) (Some true)); OQuery q_all] = true.
Proof. reflexivity. Qed.
