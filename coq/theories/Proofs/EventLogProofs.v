(* Proofs about Model/EventLog.v (C16; reused by C17). *)
From Coq Require Import List ZArith Bool Lia ZifyBool.
Import ListNotations.
From WF Require Import Model.EventLog.
Open Scope Z_scope.

(* ================================================================================== *)
(* 1. Numbering                                                                        *)
(* ================================================================================== *)

(* the i-th stored event (counting from n) carries sequence number i *)
Fixpoint gf (n : nat) (L : list sev) : Prop :=
  match L with [] => True | e :: t => s_seq e = Z.of_nat n /\ gf (S n) t end.
Definition gapfree (L : list sev) : Prop := gf 0 L.

Lemma gf_app : forall A B n, gf n (A ++ B) <-> gf n A /\ gf (n + length A) B.
Proof.
  induction A as [|a A IH]; intros B n; cbn [app gf length].
  - rewrite Nat.add_0_r. tauto.
  - rewrite IH. replace (n + S (length A))%nat with (S n + length A)%nat by lia. tauto.
Qed.

Lemma gf_map : forall L n, gf n L <-> map s_seq L = map Z.of_nat (seq n (length L)).
Proof.
  induction L as [|e L IH]; intros n; cbn [gf map length seq].
  - tauto.
  - rewrite IH. split.
    + intros [H1 H2]. now rewrite H1, H2.
    + intros H. injection H as H1 H2. auto.
Qed.

Lemma last_opt_app : forall {A} (l : list A) x, last_opt (l ++ [x]) = Some x.
Proof.
  induction l as [|a l IH]; intros x; [reflexivity|].
  cbn [app]. specialize (IH x). destruct (l ++ [x]) eqn:E.
  - destruct l; discriminate.
  - cbn [last_opt]. exact IH.
Qed.

Lemma last_opt_cons : forall {A} (a : A) l, l <> [] -> last_opt (a :: l) = last_opt l.
Proof. intros A a [|b l] H; [congruence|reflexivity]. Qed.

Lemma gf_last : forall L n e, gf n L -> last_opt L = Some e ->
  s_seq e = Z.of_nat (n + length L) - 1.
Proof.
  induction L as [|a L IH]; intros n e G H; [discriminate|].
  destruct L as [|b L].
  - cbn in H. injection H as <-. destruct G as [G _]. cbn [length]. lia.
  - rewrite last_opt_cons in H by discriminate. destruct G as [_ G].
    rewrite (IH (S n) e G H). cbn [length]. lia.
Qed.

Lemma gf_seq_max : forall L n, gf n L -> L <> [] ->
  seq_max L = Some (Z.of_nat (n + length L) - 1).
Proof.
  induction L as [|a L IH]; intros n G NE; [congruence|].
  destruct G as [Ga G]. cbn [seq_max].
  destruct L as [|b L].
  - cbn. f_equal. lia.
  - rewrite (IH (S n) G) by discriminate. f_equal. cbn [length] in *. lia.
Qed.

Lemma next_seq_gf : forall bk L, gapfree L -> next_seq bk L = Z.of_nat (length L).
Proof.
  intros bk L G. destruct L as [|a L] using rev_ind; [destruct bk; reflexivity|]. clear IHL.
  destruct bk; unfold next_seq, mem_next, sql_next.
  - rewrite last_opt_app. rewrite (gf_last _ 0 a G (last_opt_app _ _)). lia.
  - rewrite (gf_seq_max _ 0 G) by (destruct L; discriminate). lia.
Qed.

Lemma append_gf : forall bk L e, gapfree L -> gapfree (append bk L e).
Proof.
  intros bk L e G. unfold gapfree, append. apply gf_app. split; [exact G|].
  cbn. split; [|exact I]. now rewrite next_seq_gf.
Qed.

Definition build_from (bk : backend) (L : list sev) (es : list evt) : list sev :=
  fold_left (append bk) es L.
Definition build (bk : backend) (es : list evt) : list sev := build_from bk [] es.

Lemma build_from_spec : forall bk es L, gapfree L ->
  gapfree (build_from bk L es) /\ map s_ev (build_from bk L es) = map s_ev L ++ es.
Proof.
  induction es as [|e es IH]; intros L G; cbn [build_from fold_left].
  - now rewrite app_nil_r.
  - destruct (IH (append bk L e) (append_gf bk L e G)) as [H1 H2]. split; [exact H1|].
    unfold build_from in H2. rewrite H2. unfold append. rewrite map_app. cbn [map s_ev].
    now rewrite <- app_assoc.
Qed.

(* every append sequence, both stores: numbers 0..n-1 in publication order *)
Theorem numbering : forall bk es,
  map s_seq (build bk es) = map Z.of_nat (seq 0 (length es)) /\ map s_ev (build bk es) = es.
Proof.
  intros bk es. unfold build. destruct (build_from_spec bk es [] I) as [G M]. cbn in M. split; [|exact M].
  apply gf_map in G. rewrite G. f_equal. f_equal.
  rewrite <- (map_length s_ev). now rewrite M.
Qed.

Theorem numbering_continues : forall bk L es, gapfree L ->
  map s_seq (build_from bk L es) = map Z.of_nat (seq 0 (length L + length es)) /\
  map s_ev (build_from bk L es) = map s_ev L ++ es.
Proof.
  intros bk L es G0. destruct (build_from_spec bk es L G0) as [G M]. split; [|exact M].
  apply gf_map in G. rewrite G. do 2 f_equal.
  rewrite <- (map_length s_ev), M, app_length, map_length. reflexivity.
Qed.

Theorem backends_number_alike : forall es, build BMem es = build BSql es.
Proof.
  intros es. unfold build.
  assert (H : forall L, gapfree L -> build_from BMem L es = build_from BSql L es).
  { induction es as [|e es IH]; intros L G; [reflexivity|]. cbn [build_from fold_left].
    assert (E : append BMem L e = append BSql L e).
    { unfold append. now rewrite !next_seq_gf. }
    rewrite <- E. apply IH. now apply append_gf. }
  apply H. exact I.
Qed.

(* ================================================================================== *)
(* 2. Lists under the numbering                                                        *)
(* ================================================================================== *)

Lemma gf_skipn : forall m L n, gf n L -> gf (n + m) (skipn m L).
Proof.
  induction m as [|m IH]; intros L n G.
  - now rewrite Nat.add_0_r.
  - destruct L as [|e L]; [exact I|]. cbn [skipn]. destruct G as [_ G].
    replace (n + S m)%nat with (S n + m)%nat by lia. now apply IH.
Qed.

Lemma gf_firstn : forall m L n, gf n L -> gf n (firstn m L).
Proof.
  induction m as [|m IH]; intros L n G; [exact I|].
  destruct L as [|e L]; [exact I|]. destruct G as [G1 G2]. cbn [firstn gf]. auto.
Qed.

Lemma gf_ge : forall L n, gf n L -> Forall (fun e => Z.of_nat n <= s_seq e) L.
Proof.
  induction L as [|e L IH]; intros n G; constructor.
  - destruct G as [G _]. lia.
  - destruct G as [_ G]. eapply Forall_impl; [|exact (IH _ G)]. cbn. intros; lia.
Qed.

Lemma gf_lt : forall L n, gf n L -> Forall (fun e => s_seq e < Z.of_nat (n + length L)) L.
Proof.
  induction L as [|e L IH]; intros n G; constructor.
  - destruct G as [G _]. cbn [length]. lia.
  - destruct G as [_ G]. eapply Forall_impl; [|exact (IH _ G)]. cbn [length]. intros; lia.
Qed.

Definition above (k : Z) (e : sev) : bool := k <? s_seq e.

Lemma filter_above_gf : forall L n c, gf n L ->
  filter (above c) L = skipn (Z.to_nat (c + 1 - Z.of_nat n)) L.
Proof.
  induction L as [|e L IH]; intros n c G; [now rewrite skipn_nil|].
  destruct G as [Ge G]. cbn [filter]. unfold above at 1. rewrite Ge.
  destruct (c <? Z.of_nat n) eqn:E.
  - replace (Z.to_nat (c + 1 - Z.of_nat n)) with O by lia. cbn [skipn]. f_equal.
    rewrite (IH (S n) c G). replace (Z.to_nat (c + 1 - Z.of_nat (S n))) with O by lia. reflexivity.
  - replace (Z.to_nat (c + 1 - Z.of_nat n)) with (S (Z.to_nat (c + 1 - Z.of_nat (S n)))) by lia.
    cbn [skipn]. apply IH. exact G.
Qed.

Lemma filter_above_none : forall L n c, gf n L -> Z.of_nat (n + length L) <= c + 1 ->
  filter (above c) L = [].
Proof.
  intros L n c G H. rewrite (filter_above_gf L n c G). apply skipn_all2. lia.
Qed.

Lemma filter_above_all : forall L n c, gf n L -> c < Z.of_nat n -> filter (above c) L = L.
Proof.
  intros L n c G H. rewrite (filter_above_gf L n c G).
  replace (Z.to_nat (c + 1 - Z.of_nat n)) with O by lia. reflexivity.
Qed.

Lemma ins_seq_head : forall x l n, s_seq x = Z.of_nat n -> gf (S n) l -> ins_seq x l = x :: l.
Proof.
  intros x [|y l] n Hx G; [reflexivity|]. cbn [ins_seq]. destruct G as [Gy _].
  rewrite Hx, Gy. replace (Z.of_nat n <? Z.of_nat (S n)) with true by lia. reflexivity.
Qed.

Lemma sort_seq_gf : forall L n, gf n L -> sort_seq L = L.
Proof.
  induction L as [|e L IH]; intros n G; [reflexivity|]. destruct G as [Ge G].
  unfold sort_seq in *. cbn [fold_right]. rewrite (IH (S n) G). now apply (ins_seq_head e L n).
Qed.

Lemma query_after_gf : forall bk L c, gapfree L ->
  query bk (Some c) None L = skipn (Z.to_nat (c + 1)) L.
Proof.
  intros bk L c G. unfold query. change (after_ok (Some c)) with (above c).
  rewrite (filter_above_gf L 0 c G). replace (c + 1 - Z.of_nat 0) with (c + 1) by lia.
  destruct bk; [reflexivity|].
  apply (sort_seq_gf _ (0 + Z.to_nat (c + 1))). now apply gf_skipn.
Qed.

Lemma filter_true : forall {A} (l : list A), filter (fun _ => true) l = l.
Proof. induction l; cbn; congruence. Qed.

Lemma query_all_gf : forall bk L, gapfree L -> query bk None None L = L.
Proof.
  intros bk L G. unfold query. cbn [after_ok]. rewrite filter_true.
  destruct bk; [reflexivity|]. now apply (sort_seq_gf _ 0).
Qed.

(* the memory and the SQLite store answer every query alike *)
Theorem query_backends_agree : forall L after limit, gapfree L ->
  query BMem after limit L = query BSql after limit L.
Proof.
  intros L after limit G. unfold query. destruct after as [c|].
  - change (after_ok (Some c)) with (above c). rewrite (filter_above_gf L 0 c G).
    rewrite (sort_seq_gf _ (0 + Z.to_nat (c + 1 - Z.of_nat 0))) by now apply gf_skipn. reflexivity.
  - cbn [after_ok]. rewrite filter_true. now rewrite (sort_seq_gf _ 0 G).
Qed.

Theorem query_spec : forall bk L after limit, gapfree L ->
  query bk after limit L =
  match limit with
  | Some n => firstn (Z.to_nat n) (filter (after_ok after) L)
  | None => filter (after_ok after) L
  end.
Proof.
  intros bk L after limit G. destruct bk.
  - unfold query. destruct limit; reflexivity.
  - rewrite <- (query_backends_agree L after limit G). unfold query. destruct limit; reflexivity.
Qed.

(* position (list index of the next event to look at) denoted by a cursor *)
Definition pos (c : ckind) (cur : Z) : nat :=
  match c with KIdx => Z.to_nat cur | KSeq => Z.to_nat (cur + 1) end.

Lemma fetch_skipn : forall bk c L cur, gapfree L -> fetch bk c L cur = skipn (pos c cur) L.
Proof. intros bk [|] L cur G; cbn [fetch pos]; [reflexivity|now apply query_after_gf]. Qed.

Definition advs (c : ckind) (Q : list sev) (cur : Z) : Z := fold_left (adv c) Q cur.

Lemma advs_app : forall c A B cur, advs c (A ++ B) cur = advs c B (advs c A cur).
Proof. intros. unfold advs. now rewrite fold_left_app. Qed.

Lemma advs_idx : forall Q cur, advs KIdx Q cur = cur + Z.of_nat (length Q).
Proof.
  induction Q as [|e Q IH]; intros cur; cbn [advs fold_left length]; [lia|].
  unfold advs in IH. rewrite IH. cbn [adv]. lia.
Qed.

Lemma last_opt_some : forall {A} (l : list A), l <> [] -> exists x, last_opt l = Some x.
Proof.
  induction l as [|a l IH]; intros H; [congruence|]. destruct l as [|b l]; [now exists a|].
  rewrite last_opt_cons by discriminate. apply IH. discriminate.
Qed.

Lemma advs_seq : forall Q cur, advs KSeq Q cur =
  match last_opt Q with Some e => s_seq e | None => cur end.
Proof.
  induction Q as [|e Q IH]; intros cur; [reflexivity|].
  cbn [advs fold_left adv]. unfold advs in IH. rewrite IH.
  destruct Q as [|b Q]; [reflexivity|]. rewrite (last_opt_cons e (b :: Q)) by discriminate.
  destruct (last_opt_some (b :: Q)) as [x Hx]; [discriminate|]. now rewrite Hx.
Qed.

(* consuming a prefix Q of what is left moves the position by |Q| *)
Lemma pos_advs : forall c L cur Q T, gapfree L -> (c = KIdx -> 0 <= cur) ->
  skipn (pos c cur) L = Q ++ T ->
  pos c (advs c Q cur) = (pos c cur + length Q)%nat /\ (c = KIdx -> 0 <= advs c Q cur).
Proof.
  intros c L cur Q T G Hc E. destruct c.
  - rewrite advs_idx. cbn [pos]. specialize (Hc eq_refl). split; [lia|intros; lia].
  - split; [|discriminate]. rewrite advs_seq. destruct Q as [|q Q]; [cbn; lia|].
    destruct (last_opt_some (q :: Q)) as [x Hx]; [discriminate|]. rewrite Hx.
    assert (G' : gf (0 + pos KSeq cur) (skipn (pos KSeq cur) L)) by now apply gf_skipn.
    rewrite E in G'. apply gf_app in G'. destruct G' as [G' _].
    rewrite (gf_last _ _ x G' Hx). cbn [pos] in *. lia.
Qed.

Lemma skipn_app_split : forall {A} p (L Q T : list A),
  skipn p L = Q ++ T -> skipn (p + length Q) L = T.
Proof.
  induction p as [|p IH]; intros L Q T E.
  - cbn in *. subst L. now rewrite skipn_app, skipn_all, Nat.sub_diag.
  - destruct L as [|a L].
    + cbn in E. symmetry in E. apply app_eq_nil in E. destruct E as [-> ->]. now rewrite skipn_nil.
    + cbn [skipn Nat.add] in *. now apply IH.
Qed.

Lemma firstn_app_split : forall {A} p (L Q T : list A),
  skipn p L = Q ++ T -> firstn (p + length Q) L = firstn p L ++ Q.
Proof.
  induction p as [|p IH]; intros L Q T E.
  - cbn in *. subst L. rewrite firstn_app, firstn_all, Nat.sub_diag. cbn. now rewrite app_nil_r.
  - destruct L as [|a L].
    + cbn in E. symmetry in E. apply app_eq_nil in E. destruct E as [-> ->]. now rewrite !firstn_nil.
    + cbn [skipn Nat.add firstn app] in *. f_equal. now apply (IH L Q T).
Qed.

(* ================================================================================== *)
(* 3. The specification                                                                *)
(* ================================================================================== *)

Lemma until_term_noterm : forall A, existsb is_terminal A = false -> until_term A = A.
Proof.
  induction A as [|a A IH]; intros H; [reflexivity|]. cbn in *.
  apply orb_false_iff in H. destruct H as [H1 H2]. rewrite H1. f_equal. auto.
Qed.

Lemma until_term_app : forall A B,
  until_term (A ++ B) = if existsb is_terminal A then until_term A else A ++ until_term B.
Proof.
  induction A as [|a A IH]; intros B; [reflexivity|]. cbn [app until_term existsb].
  destruct (is_terminal a); cbn [orb]; [reflexivity|]. rewrite IH.
  destruct (existsb is_terminal A); reflexivity.
Qed.

Lemma sub_spec_above : forall k L, sub_spec k L = until_term (filter (above k) L).
Proof. reflexivity. Qed.
Lemma ended_above : forall k L, ended k L = existsb is_terminal (filter (above k) L).
Proof. reflexivity. Qed.

Lemma ended_app : forall k A B, ended k (A ++ B) = ended k A || ended k B.
Proof. intros. unfold ended. now rewrite filter_app, existsb_app. Qed.

Lemma sub_spec_app : forall k A B,
  sub_spec k (A ++ B) = if ended k A then sub_spec k A else sub_spec k A ++ sub_spec k B.
Proof.
  intros k A B. unfold sub_spec, ended. rewrite filter_app, until_term_app.
  destruct (existsb is_terminal (filter _ A)) eqn:E; [reflexivity|].
  now rewrite (until_term_noterm _ E).
Qed.

Lemma vis_spec_app : forall k inc A B,
  vis_spec k inc (A ++ B) =
  if ended k A then vis_spec k inc A else vis_spec k inc A ++ vis_spec k inc B.
Proof.
  intros. unfold vis_spec. rewrite sub_spec_app. destruct (ended k A); [reflexivity|].
  now rewrite filter_app.
Qed.

Definition prefix {A} (a b : list A) : Prop := exists c, b = a ++ c.

Lemma vis_spec_prefix : forall k inc A B, prefix (vis_spec k inc A) (vis_spec k inc (A ++ B)).
Proof.
  intros. rewrite vis_spec_app. destruct (ended k A).
  - exists []. now rewrite app_nil_r.
  - now exists (vis_spec k inc B).
Qed.

(* a log that only contains events at or below k contributes nothing *)
Lemma spec_below : forall k inc L, filter (above k) L = [] ->
  vis_spec k inc L = [] /\ ended k L = false.
Proof. intros k inc L H. unfold vis_spec, sub_spec, ended. fold (above k). now rewrite H. Qed.

Lemma spec_cons_below : forall k inc a M, above k a = false ->
  vis_spec k inc (a :: M) = vis_spec k inc M /\ ended k (a :: M) = ended k M.
Proof.
  intros k inc a M H. unfold vis_spec, sub_spec, ended. fold (above k). cbn [filter]. now rewrite H.
Qed.

Lemma spec_cons_nonterm : forall k inc a M, above k a = true -> is_terminal a = false ->
  vis_spec k inc (a :: M) = (if visible inc a then [a] else []) ++ vis_spec k inc M /\
  ended k (a :: M) = ended k M.
Proof.
  intros k inc a M H T. unfold vis_spec, sub_spec, ended. fold (above k). cbn [filter]. rewrite H.
  cbn [until_term existsb filter]. rewrite T. cbn [orb]. split; [|reflexivity].
  destruct (visible inc a); reflexivity.
Qed.

Lemma spec_cons_term : forall k inc a M, above k a = true -> is_terminal a = true ->
  vis_spec k inc (a :: M) = (if visible inc a then [a] else []) /\ ended k (a :: M) = true.
Proof.
  intros k inc a M H T. unfold vis_spec, sub_spec, ended. fold (above k). cbn [filter]. rewrite H.
  cbn [until_term existsb filter]. rewrite T. cbn [orb filter]. split; [|reflexivity].
  destruct (visible inc a); reflexivity.
Qed.

(* ================================================================================== *)
(* 4. One resumption of a subscriber                                                    *)
(* ================================================================================== *)

(* an event the iteration passes over without handing it on and without stopping *)
Definition quiet (c : ckind) (k : Z) (inc : bool) (e : sev) : Prop :=
  skipped c k e = true \/ (is_terminal e = false /\ visible inc e = false).

Definition optl {A} (o : option A) : list A := match o with Some x => [x] | None => [] end.

Definition scan_post (c : ckind) (k : Z) (inc : bool) (R : list sev) (cur : Z) (res : scan_res) : Prop :=
  match res with
  | Exhausted c' => Forall (quiet c k inc) R /\ c' = advs c R cur
  | Delivered e c' r => exists Q, R = Q ++ e :: r /\ Forall (quiet c k inc) Q /\
      skipped c k e = false /\ is_terminal e = false /\ visible inc e = true /\
      c' = advs c (Q ++ [e]) cur
  | Finished d c' => exists Q e r, R = Q ++ e :: r /\ Forall (quiet c k inc) Q /\
      skipped c k e = false /\ is_terminal e = true /\
      d = (if visible inc e then Some e else None) /\ c' = advs c (Q ++ [e]) cur
  end.

Lemma scan_post_cons : forall c k inc a R cur res, quiet c k inc a ->
  scan_post c k inc R (adv c cur a) res -> scan_post c k inc (a :: R) cur res.
Proof.
  intros c k inc a R cur res Hq H. destruct res as [c'|e c' r|d c']; cbn [scan_post] in *.
  - destruct H as [F E]. split; [now constructor|exact E].
  - destruct H as (Q & E & F & H1 & H2 & H3 & H4). exists (a :: Q). subst R.
    repeat split; auto.
  - destruct H as (Q & e & r & E & F & H1 & H2 & H3 & H4). exists (a :: Q), e, r. subst R.
    repeat split; auto.
Qed.

Lemma scan_sem : forall c k inc R cur, scan_post c k inc R cur (scan c k inc R cur).
Proof.
  induction R as [|a R IH]; intros cur; cbn [scan].
  - cbn. split; [constructor|reflexivity].
  - destruct (skipped c k a) eqn:Es.
    + apply scan_post_cons; [now left|apply IH].
    + destruct (is_terminal a) eqn:Et.
      * cbn. exists [], a, R. repeat split; auto.
      * destruct (visible inc a) eqn:Ev.
        -- cbn. exists []. repeat split; auto.
        -- apply scan_post_cons; [now right|apply IH].
Qed.

Lemma scan_app : forall c k inc A B cur,
  scan c k inc (A ++ B) cur =
  match scan c k inc A cur with
  | Exhausted c' => scan c k inc B c'
  | Delivered e c' r => Delivered e c' (r ++ B)
  | Finished d c' => Finished d c'
  end.
Proof.
  induction A as [|a A IH]; intros B cur; [reflexivity|]. cbn [app scan].
  destruct (skipped c k a); [apply IH|]. destruct (is_terminal a); [reflexivity|].
  destruct (visible inc a); [reflexivity|apply IH].
Qed.

Lemma skipped_above : forall c k e, (c = KSeq -> above k e = true) ->
  skipped c k e = negb (above k e).
Proof.
  intros [|] k e H; unfold skipped, above in *; [lia|]. now rewrite H.
Qed.

(* passing over quiet events neither adds to the specified output nor ends it *)
Lemma quiet_spec : forall c k inc Q X, Forall (quiet c k inc) Q ->
  Forall (fun e => c = KSeq -> above k e = true) Q ->
  vis_spec k inc (Q ++ X) = vis_spec k inc X /\ ended k (Q ++ X) = ended k X.
Proof.
  induction Q as [|a Q IH]; intros X F1 F2; [now split|].
  inversion F1 as [|? ? Ha F1']; inversion F2 as [|? ? Hb F2']; subst.
  destruct (IH X F1' F2') as [I1 I2]. cbn [app].
  pose proof (skipped_above c k a Hb) as Hs.
  destruct (above k a) eqn:Ea.
  - destruct Ha as [Ha|[Ht Hv]]; [rewrite Ha in Hs; discriminate|].
    destruct (spec_cons_nonterm k inc a (Q ++ X) Ea Ht) as [S1 S2].
    rewrite S1, S2, Hv. now split.
  - destruct (spec_cons_below k inc a (Q ++ X) Ea) as [S1 S2]. rewrite S1, S2. now split.
Qed.

Definition same_static (s s' : sub) : Prop :=
  ck s' = ck s /\ wk s' = wk s /\ k_after s' = k_after s /\ incl s' = incl s.

Definition need (s : sub) (R : list sev) : nat :=
  match batch s with [] => match R with [] => 1 | _ => 2 end | _ => 3 end.

(* the loop of subscribe_events, against R = everything the cursor has not passed yet *)
Lemma loop_char : forall fuel bk L s R,
  (forall Q T, R = Q ++ T -> fetch bk (ck s) L (advs (ck s) Q (cur s)) = T) ->
  (exists T, R = batch s ++ T) ->
  (need s R <= fuel)%nat ->
  let s' := run_loop fuel bk L s in
  same_static s s' /\
  match scan (ck s) (k_after s) (incl s) R (cur s) with
  | Exhausted c' => st s' = Waiting /\ cur s' = c' /\ out s' = out s /\ batch s' = []
  | Delivered e c' r => st s' = Ready /\ cur s' = c' /\ out s' = out s ++ [e] /\
                        exists T, r = batch s' ++ T
  | Finished d c' => st s' = Done /\ cur s' = c' /\ out s' = out s ++ optl d /\ batch s' = []
  end.
Proof.
  induction fuel as [|f IH]; intros bk L s R FO [T0 ER] Hn.
  - unfold need in Hn. destruct (batch s); [destruct R|]; lia.
  - cbn [run_loop]. unfold need in Hn. destruct (batch s) as [|b0 bs] eqn:Eb.
    + (* poll *)
      cbn [app] in ER. subst T0. pose proof (FO [] R eq_refl) as F0. unfold advs in F0.
      cbn [fold_left] in F0. rewrite F0.
      destruct R as [|r0 R'].
      * cbn. repeat split; reflexivity.
      * pose proof (scan_sem (ck s) (k_after s) (incl s) (r0 :: R') (cur s)) as SS.
        destruct (scan (ck s) (k_after s) (incl s) (r0 :: R') (cur s)) as [c1|e c1 r|d c1] eqn:Esc.
        -- destruct SS as [_ Ec].
           specialize (IH bk L (set_run s c1 [] Ready (out s)) []).
           cbn [set_run ck k_after incl cur batch out] in IH.
           destruct IH as [St Hr].
           ++ intros Q T E. symmetry in E. apply app_eq_nil in E. destruct E as [-> ->].
              cbn [advs fold_left]. rewrite Ec. apply (FO (r0 :: R') []). now rewrite app_nil_r.
           ++ now exists [].
           ++ unfold need. cbn. lia.
           ++ cbn [scan] in Hr. split; [exact St|exact Hr].
        -- cbn. repeat split; try reflexivity. exists []. now rewrite app_nil_r.
        -- cbn. repeat split; reflexivity.
    + (* continue with the old snapshot *)
      set (b := b0 :: bs) in *. subst R. rewrite scan_app.
      pose proof (scan_sem (ck s) (k_after s) (incl s) b (cur s)) as SS.
      destruct (scan (ck s) (k_after s) (incl s) b (cur s)) as [c1|e c1 r|d c1] eqn:Esc.
      * destruct SS as [_ Ec].
        specialize (IH bk L (set_run s c1 [] Ready (out s)) T0).
        cbn [set_run ck k_after incl cur batch out] in IH.
        destruct IH as [St Hr].
        -- intros Q T E. rewrite Ec, <- advs_app. apply FO. rewrite E. now rewrite app_assoc.
        -- now exists T0.
        -- unfold need. cbn. destruct T0; lia.
        -- subst b. split; [exact St|exact Hr].
      * subst b. cbn. repeat split; try reflexivity. now exists T0.
      * subst b. cbn. repeat split; reflexivity.
Qed.

(* ================================================================================== *)
(* 5. The subscriber invariant                                                          *)
(* ================================================================================== *)

Record Inv (L : list sev) (s : sub) : Prop := mkInv {
  inv_idx : ck s = KIdx -> 0 <= cur s;
  inv_seq : ck s = KSeq -> k_after s <= cur s;
  inv_cap : (pos (ck s) (cur s) <= length L)%nat \/ Z.of_nat (pos (ck s) (cur s)) <= k_after s + 1;
  inv_batch : exists T, skipn (pos (ck s) (cur s)) L = batch s ++ T;
  inv_out : out s = vis_spec (k_after s) (incl s) (firstn (pos (ck s) (cur s)) L);
  inv_done : st s = Done -> ended (k_after s) (firstn (pos (ck s) (cur s)) L) = true;
  inv_live : st s <> Done -> ended (k_after s) (firstn (pos (ck s) (cur s)) L) = false;
  inv_wait : st s = Waiting -> batch s = [];
  inv_stuck : st s <> Stuck
}.

Lemma rem_above : forall L c k cur, gapfree L -> (c = KSeq -> k <= cur) ->
  Forall (fun e => c = KSeq -> above k e = true) (skipn (pos c cur) L).
Proof.
  intros L c k cur G H. destruct c.
  - apply Forall_forall. intros; discriminate.
  - specialize (H eq_refl). pose proof (gf_ge _ _ (gf_skipn (pos KSeq cur) L 0 G)) as F.
    eapply Forall_impl; [|exact F]. cbn [pos]. intros e He _. unfold above. lia.
Qed.

Lemma advs_seq_ge : forall k C cur, Forall (fun e => above k e = true) C -> k <= cur ->
  k <= advs KSeq C cur.
Proof.
  induction C as [|a C IH]; intros cur F H; [exact H|]. inversion F; subst.
  cbn [advs fold_left adv]. apply IH; [assumption|]. unfold above in *. lia.
Qed.

Lemma fetch_ok : forall bk L c cur, gapfree L -> (c = KIdx -> 0 <= cur) ->
  forall Q T, skipn (pos c cur) L = Q ++ T -> fetch bk c L (advs c Q cur) = T.
Proof.
  intros bk L c cur G H Q T E. rewrite fetch_skipn by exact G.
  destruct (pos_advs c L cur Q T G H E) as [P _]. rewrite P. now apply skipn_app_split.
Qed.

Lemma consume_inv : forall L s C r s', gapfree L -> Inv L s -> st s <> Done ->
  skipn (pos (ck s) (cur s)) L = C ++ r ->
  same_static s s' ->
  cur s' = advs (ck s) C (cur s) ->
  (exists T, r = batch s' ++ T) ->
  out s' = out s ++ vis_spec (k_after s) (incl s) C ->
  (st s' = Done -> ended (k_after s) C = true) ->
  (st s' <> Done -> ended (k_after s) C = false) ->
  (st s' = Waiting -> batch s' = []) -> st s' <> Stuck ->
  Inv L s' /\ pos (ck s') (cur s') = (pos (ck s) (cur s) + length C)%nat.
Proof.
  intros L s C r s' G I Hnd E (S1 & S2 & S3 & S4) Hc Hb Ho Hd1 Hd2 Hw Hs.
  destruct (pos_advs (ck s) L (cur s) C r G (inv_idx _ _ I) E) as [Hp Hi].
  assert (Hp' : pos (ck s') (cur s') = (pos (ck s) (cur s) + length C)%nat) by now rewrite S1, Hc.
  split; [|exact Hp'].
  pose proof (inv_live _ _ I Hnd) as NE.
  pose proof (firstn_app_split _ L C r E) as EF.
  pose proof (skipn_app_split _ L C r E) as ES.
  constructor; rewrite ?Hp', ?S3, ?S4.
  - rewrite S1, Hc. exact Hi.
  - rewrite S1, Hc. intros Hk. rewrite Hk in *. apply advs_seq_ge; [|now apply (inv_seq _ _ I)].
    pose proof (rem_above L KSeq (k_after s) (cur s) G (fun _ => inv_seq _ _ I Hk)) as F.
    rewrite E in F. apply Forall_app in F. destruct F as [F _].
    eapply Forall_impl; [|exact F]. cbn. auto.
  - destruct C as [|c0 C].
    + rewrite Nat.add_0_r. exact (inv_cap _ _ I).
    + left. pose proof (f_equal (@length _) E) as EL. rewrite skipn_length, app_length in EL.
      cbn [length] in *. lia.
  - rewrite ES. exact Hb.
  - rewrite Ho, EF, vis_spec_app, NE. now rewrite <- (inv_out _ _ I).
  - intros Hd. rewrite EF, ended_app, (Hd1 Hd). apply orb_true_r.
  - intros Hd. rewrite EF, ended_app, NE, (Hd2 Hd). reflexivity.
  - exact Hw.
  - exact Hs.
Qed.

(* what one resumption does, in terms of the specification only (independent of the kind of cursor) *)
Definition step_post (L : list sev) (s s' : sub) : Prop :=
  exists rest, vis_spec (k_after s) (incl s) L = out s ++ rest /\
    match rest with
    | [] => out s' = out s /\ st s' = (if ended (k_after s) L then Done else Waiting)
    | e :: _ => out s' = out s ++ [e] /\ st s' = (if is_terminal e then Done else Ready)
    end.

Lemma above_of_unskipped : forall c k e, (c = KSeq -> above k e = true) ->
  skipped c k e = false -> above k e = true.
Proof.
  intros c k e H Hs. rewrite (skipped_above c k e H) in Hs. now destruct (above k e).
Qed.

Lemma step_sem : forall bk L s, gapfree L -> Inv L s -> st s = Ready ->
  let s' := sub_run bk L s in
  Inv L s' /\ same_static s s' /\ step_post L s s' /\
  (st s' = Waiting -> (length L <= pos (ck s') (cur s'))%nat).
Proof.
  intros bk L s G I Hr. unfold sub_run. rewrite Hr.
  set (p := pos (ck s) (cur s)). set (R := skipn p L).
  assert (Hnd : st s <> Done) by (rewrite Hr; discriminate).
  pose proof (inv_live _ _ I Hnd) as NE. fold p in NE.
  assert (EV : forall X, skipn p L = X ->
            vis_spec (k_after s) (incl s) L = out s ++ vis_spec (k_after s) (incl s) X /\
            ended (k_after s) L = ended (k_after s) X).
  { intros X EX. split.
    - rewrite <- (firstn_skipn p L) at 1. rewrite EX, vis_spec_app, NE.
      f_equal. symmetry. exact (inv_out _ _ I).
    - rewrite <- (firstn_skipn p L) at 1. now rewrite EX, ended_app, NE. }
  pose proof (rem_above L (ck s) (k_after s) (cur s) G (inv_seq _ _ I)) as RA. fold p in RA. fold R in RA.
  destruct (loop_char 3 bk L s R) as [St Hres].
  { intros Q T E. apply fetch_ok; [exact G|exact (inv_idx _ _ I)|exact E]. }
  { exact (inv_batch _ _ I). }
  { unfold need. destruct (batch s); [destruct R|]; lia. }
  pose proof (scan_sem (ck s) (k_after s) (incl s) R (cur s)) as SS.
  destruct (scan (ck s) (k_after s) (incl s) R (cur s)) as [c1|e c1 r|d c1].
  - (* nothing to hand on: wait *)
    destruct SS as [FQ Ec]. destruct Hres as (H1 & H2 & H3 & H4).
    destruct (quiet_spec _ _ _ R [] FQ RA) as [Q1 Q2]. rewrite app_nil_r in Q1, Q2.
    assert (A1 : skipn (pos (ck s) (cur s)) L = R ++ []) by now rewrite app_nil_r.
    assert (A2 : cur (run_loop 3 bk L s) = advs (ck s) R (cur s)) by congruence.
    assert (A3 : exists T, [] = batch (run_loop 3 bk L s) ++ T) by (exists []; now rewrite H4).
    assert (A4 : out (run_loop 3 bk L s) = out s ++ vis_spec (k_after s) (incl s) R)
      by (rewrite H3, Q1; now rewrite app_nil_r).
    assert (A5 : st (run_loop 3 bk L s) = Done -> ended (k_after s) R = true) by (rewrite H1; discriminate).
    assert (A6 : st (run_loop 3 bk L s) <> Done -> ended (k_after s) R = false) by (intros _; exact Q2).
    assert (A7 : st (run_loop 3 bk L s) = Waiting -> batch (run_loop 3 bk L s) = []) by (intros _; exact H4).
    assert (A8 : st (run_loop 3 bk L s) <> Stuck) by (rewrite H1; discriminate).
    destruct (consume_inv L s R [] (run_loop 3 bk L s) G I Hnd A1 St A2 A3 A4 A5 A6 A7 A8) as [I' P'].
    split; [exact I'|]. split; [exact St|]. split.
    + destruct (EV R eq_refl) as [V1 V2]. exists []. rewrite V1, Q1. split; [reflexivity|].
      rewrite V2, Q2. split; [exact H3|exact H1].
    + intros _. rewrite P'. fold p. unfold R. rewrite skipn_length. lia.
  - (* one event for the consumer *)
    destruct SS as (Q & ER & FQ & Hs & Ht & Hv & Ec). destruct Hres as (H1 & H2 & H3 & H4).
    rewrite ER in RA. apply Forall_app in RA. destruct RA as [RAQ RAe].
    inversion RAe as [|? ? RAe1 RAr]; subst.
    pose proof (above_of_unskipped _ _ _ RAe1 Hs) as Ha.
    destruct (quiet_spec _ _ _ Q [e] FQ RAQ) as [Q1 Q2].
    destruct (spec_cons_nonterm (k_after s) (incl s) e [] Ha Ht) as [N1 N2]. rewrite Hv in N1.
    assert (A1 : skipn (pos (ck s) (cur s)) L = (Q ++ [e]) ++ r)
      by (fold p; fold R; rewrite ER; now rewrite <- app_assoc).
    assert (A2 : cur (run_loop 3 bk L s) = advs (ck s) (Q ++ [e]) (cur s)) by congruence.
    assert (A4 : out (run_loop 3 bk L s) = out s ++ vis_spec (k_after s) (incl s) (Q ++ [e]))
      by (rewrite H3, Q1, N1; reflexivity).
    assert (A5 : st (run_loop 3 bk L s) = Done -> ended (k_after s) (Q ++ [e]) = true) by (rewrite H1; discriminate).
    assert (A6 : st (run_loop 3 bk L s) <> Done -> ended (k_after s) (Q ++ [e]) = false)
      by (intros _; rewrite Q2, N2; reflexivity).
    assert (A7 : st (run_loop 3 bk L s) = Waiting -> batch (run_loop 3 bk L s) = []) by (rewrite H1; discriminate).
    assert (A8 : st (run_loop 3 bk L s) <> Stuck) by (rewrite H1; discriminate).
    destruct (consume_inv L s (Q ++ [e]) r (run_loop 3 bk L s) G I Hnd A1 St A2 H4 A4 A5 A6 A7 A8) as [I' P'].
    split; [exact I'|]. split; [exact St|]. split.
    + destruct (EV R eq_refl) as [V1 _]. destruct (quiet_spec _ _ _ Q (e :: r) FQ RAQ) as [Q3 _].
      destruct (spec_cons_nonterm (k_after s) (incl s) e r Ha Ht) as [N3 _]. rewrite Hv in N3.
      exists (e :: vis_spec (k_after s) (incl s) r). rewrite V1, ER, Q3, N3. split; [reflexivity|].
      rewrite Ht. split; [exact H3|exact H1].
    + rewrite H1. discriminate.
  - (* the terminal event *)
    destruct SS as (Q & e & r & ER & FQ & Hs & Ht & Hd & Ec). destruct Hres as (H1 & H2 & H3 & H4).
    rewrite ER in RA. apply Forall_app in RA. destruct RA as [RAQ RAe].
    inversion RAe as [|? ? RAe1 RAr]; subst.
    pose proof (above_of_unskipped _ _ _ RAe1 Hs) as Ha.
    destruct (quiet_spec _ _ _ Q [e] FQ RAQ) as [Q1 Q2].
    destruct (spec_cons_term (k_after s) (incl s) e [] Ha Ht) as [N1 N2].
    assert (A1 : skipn (pos (ck s) (cur s)) L = (Q ++ [e]) ++ r)
      by (fold p; fold R; rewrite ER; now rewrite <- app_assoc).
    assert (A2 : cur (run_loop 3 bk L s) = advs (ck s) (Q ++ [e]) (cur s)) by congruence.
    assert (A3 : exists T, r = batch (run_loop 3 bk L s) ++ T) by (exists r; now rewrite H4).
    assert (A4 : out (run_loop 3 bk L s) = out s ++ vis_spec (k_after s) (incl s) (Q ++ [e]))
      by (rewrite H3, Q1, N1; destruct (visible (incl s) e); reflexivity).
    assert (A5 : st (run_loop 3 bk L s) = Done -> ended (k_after s) (Q ++ [e]) = true)
      by (intros _; rewrite Q2, N2; reflexivity).
    assert (A6 : st (run_loop 3 bk L s) <> Done -> ended (k_after s) (Q ++ [e]) = false) by (rewrite H1; congruence).
    assert (A7 : st (run_loop 3 bk L s) = Waiting -> batch (run_loop 3 bk L s) = []) by (intros _; exact H4).
    assert (A8 : st (run_loop 3 bk L s) <> Stuck) by (rewrite H1; discriminate).
    destruct (consume_inv L s (Q ++ [e]) r (run_loop 3 bk L s) G I Hnd A1 St A2 A3 A4 A5 A6 A7 A8) as [I' P'].
    split; [exact I'|]. split; [exact St|]. split.
    + destruct (EV R eq_refl) as [V1 V2]. destruct (quiet_spec _ _ _ Q (e :: r) FQ RAQ) as [Q3 Q4].
      destruct (spec_cons_term (k_after s) (incl s) e r Ha Ht) as [N3 N4].
      exists (if visible (incl s) e then [e] else []). rewrite V1, ER, Q3, N3. split; [reflexivity|].
      destruct (visible (incl s) e); cbn [optl] in H3.
      * rewrite Ht. split; [exact H3|exact H1].
      * rewrite V2, ER, Q4, N4. rewrite app_nil_r in H3. split; [exact H3|exact H1].
    + rewrite H1. discriminate.
Qed.

(* ================================================================================== *)
(* 6. All interleavings of writers and subscribers                                      *)
(* ================================================================================== *)

Lemma spec_firstn_ext : forall k inc L X p, gapfree (L ++ X) ->
  (p <= length L)%nat \/ Z.of_nat p <= k + 1 ->
  vis_spec k inc (firstn p (L ++ X)) = vis_spec k inc (firstn p L) /\
  ended k (firstn p (L ++ X)) = ended k (firstn p L).
Proof.
  intros k inc L X p G [H|H].
  - rewrite firstn_app. replace (p - length L)%nat with O by lia. cbn [firstn].
    now rewrite app_nil_r.
  - assert (E : forall M, gapfree M -> filter (above k) (firstn p M) = []).
    { intros M GM. apply (filter_above_none _ 0); [now apply gf_firstn|].
      pose proof (firstn_le_length p M). lia. }
    destruct (spec_below k inc _ (E _ G)) as [A1 A2].
    assert (GL : gapfree L) by (apply gf_app in G; tauto).
    destruct (spec_below k inc _ (E _ GL)) as [B1 B2]. now rewrite A1, A2, B1, B2.
Qed.

Lemma Inv_ext : forall L X s, gapfree (L ++ X) -> Inv L s -> Inv (L ++ X) s.
Proof.
  intros L X s G I.
  destruct (spec_firstn_ext (k_after s) (incl s) L X _ G (inv_cap _ _ I)) as [E1 E2].
  constructor; rewrite ?E1, ?E2; try apply I.
  - destruct (inv_cap _ _ I) as [H|H]; [left; rewrite app_length; lia|now right].
  - destruct (inv_batch _ _ I) as [T ET].
    destruct (Nat.le_gt_cases (pos (ck s) (cur s)) (length L)) as [H|H].
    + rewrite skipn_app, ET. replace (pos (ck s) (cur s) - length L)%nat with O by lia.
      cbn [skipn]. exists (T ++ X). now rewrite app_assoc.
    + rewrite skipn_all2 in ET by lia. symmetry in ET. apply app_eq_nil in ET. destruct ET as [-> _].
      now exists (skipn (pos (ck s) (cur s)) (L ++ X)).
Qed.

Lemma Inv_wake : forall L s, Inv L s -> st s = Waiting ->
  Inv L (set_run s (cur s) (batch s) Ready (out s)).
Proof.
  intros L s I W. constructor; cbn [set_run ck cur k_after incl batch out st]; try apply I.
  - discriminate.
  - intros _. apply (inv_live _ _ I). rewrite W. discriminate.
  - discriminate.
  - discriminate.
Qed.

Lemma Inv_init : forall L c w k inc, gapfree L -> Inv L (sub_init c w k inc).
Proof.
  intros L c w k inc G.
  assert (E : filter (above k) (firstn (pos c (match c with KIdx => 0 | KSeq => k end)) L) = []).
  { destruct c; cbn [pos]; [reflexivity|].
    destruct (Z_le_gt_dec 0 (k + 1)).
    - apply (filter_above_none _ 0); [now apply gf_firstn|].
      pose proof (firstn_le_length (Z.to_nat (k + 1)) L). lia.
    - replace (Z.to_nat (k + 1)) with O by lia. reflexivity. }
  destruct (spec_below k inc _ E) as [E1 E2].
  constructor; cbn [sub_init ck cur k_after incl batch out st]; try discriminate.
  - destruct c; [lia|discriminate].
  - destruct c; [discriminate|lia].
  - destruct c; cbn [pos]; [left; lia|].
    destruct (Z_le_gt_dec 0 (k + 1)); [right; lia|left; lia].
  - now exists (skipn (pos c (match c with KIdx => 0 | KSeq => k end)) L).
  - now rewrite E1.
  - intros _. exact E2.
Qed.

(* a waiting subscriber of a condition-notified store has seen everything except what writers
   have inserted but not yet announced *)
Definition nolost (L : list sev) (pd : nat) (s : sub) : Prop :=
  st s = Waiting -> wk s <> WPoll -> (length L <= pos (ck s) (cur s) + pd)%nat.

Record SysInv (s : sys) : Prop := mkSI {
  si_gf : gapfree (log s);
  si_inv : Forall (Inv (log s)) (subs s);
  si_nolost : Forall (nolost (log s) (pend s)) (subs s)
}.

Definition legal (a : action) : Prop :=
  match a with ASubscribe x => exists c w k inc, x = sub_init c w k inc | _ => True end.

Lemma Forall_upd : forall {A} (P : A -> Prop) f i l,
  Forall P l -> (forall x, P x -> P (f x)) -> Forall P (upd f i l).
Proof.
  intros A P f i l. revert i. induction l as [|a l IH]; intros i F H; [destruct i; constructor|].
  inversion F; subst. destruct i; cbn [upd]; constructor; auto.
Qed.

Lemma wake_notify_cases : forall s,
  (st s = Waiting /\ wk s <> WPoll /\ wake_notify s = set_run s (cur s) (batch s) Ready (out s)) \/
  ((st s <> Waiting \/ wk s = WPoll) /\ wake_notify s = s).
Proof.
  intros s. unfold wake_notify. destruct (st s) eqn:Es; try (right; split; [left; discriminate|reflexivity]).
  destruct (wk s) eqn:Ew.
  - left. repeat split; discriminate.
  - left. repeat split; discriminate.
  - right. split; [now right|reflexivity].
Qed.

Lemma wake_timeout_cases : forall s,
  (st s = Waiting /\ wake_timeout s = set_run s (cur s) (batch s) Ready (out s)) \/
  (wake_timeout s = s /\ (st s = Waiting -> wk s = WCond)).
Proof.
  intros s. unfold wake_timeout. destruct (st s) eqn:Es; try (right; split; [reflexivity|discriminate]).
  destruct (wk s); [right; auto|left; auto|left; auto].
Qed.

Lemma act_inv : forall bk s a, SysInv s -> legal a -> SysInv (act bk s a).
Proof.
  intros bk s a [G FI FN] La. destruct a as [e| |i|i|x]; cbn [act log pend subs].
  - (* write *)
    pose proof (append_gf bk _ e G) as G'. unfold append in *. constructor; cbn [log pend subs].
    + exact G'.
    + eapply Forall_impl; [|exact FI]. intros x. now apply Inv_ext.
    + eapply Forall_impl; [|exact FN]. intros x N W P. specialize (N W P).
      rewrite app_length. cbn [length]. lia.
  - (* notify *)
    destruct (pend s) as [|p] eqn:Ep; [constructor; [exact G|exact FI|now rewrite Ep]|].
    constructor; cbn [log pend subs].
    + exact G.
    + apply Forall_map. eapply Forall_impl; [|exact FI]. intros x I.
      destruct (wake_notify_cases x) as [(W & _ & ->)|[_ ->]]; [now apply Inv_wake|exact I].
    + apply Forall_map. apply Forall_forall. intros x _.
      destruct (wake_notify_cases x) as [(W & _ & ->)|[[W|W] ->]]; intros W' P'; cbn in *; congruence.
  - (* poll interval *)
    constructor; cbn [log pend subs]; [exact G| |].
    + apply Forall_upd; [exact FI|]. intros x I.
      destruct (wake_timeout_cases x) as [[W ->]|[-> _]]; [now apply Inv_wake|exact I].
    + apply Forall_upd; [exact FN|]. intros x N.
      destruct (wake_timeout_cases x) as [[W ->]|[-> _]]; [|exact N]. intros W'. discriminate.
  - (* a subscriber runs *)
    constructor; cbn [log pend subs]; [exact G| |].
    + apply Forall_upd; [exact FI|]. intros x I. destruct (st x) eqn:Es;
        try (unfold sub_run; rewrite Es; exact I).
      now destruct (step_sem bk _ x G I Es) as [I' _].
    + rewrite Forall_forall in FI. apply Forall_forall. intros x Hx.
      (* cannot go through Forall_upd: needs Inv of the same element *)
      revert x Hx. apply Forall_forall.
      assert (FB : Forall (fun x => Inv (log s) x /\ nolost (log s) (pend s) x) (subs s)).
      { apply Forall_forall. intros x Hx. split; [now apply FI|].
        rewrite Forall_forall in FN. now apply FN. }
      eapply Forall_impl; [|apply (Forall_upd _ (sub_run bk (log s)) i _ FB)].
      * intros x [_ N]. exact N.
      * intros x [I N]. destruct (st x) eqn:Es; try (unfold sub_run; rewrite Es; now split).
        destruct (step_sem bk _ x G I Es) as (I' & _ & _ & W'). split; [exact I'|].
        intros W _. specialize (W' W). lia.
  - (* subscribe *)
    destruct La as (c & w & k & inc & ->). constructor; cbn [log pend subs]; [exact G| |].
    + apply Forall_app. split; [exact FI|]. constructor; [now apply Inv_init|constructor].
    + apply Forall_app. split; [exact FN|]. constructor; [|constructor]. intros W. discriminate.
Qed.

Lemma run_inv : forall bk acts s, SysInv s -> Forall legal acts -> SysInv (run bk s acts).
Proof.
  induction acts as [|a acts IH]; intros s I F; [exact I|]. inversion F; subst.
  cbn [run fold_left]. apply IH; [now apply act_inv|assumption].
Qed.

Lemma sys0_inv : SysInv sys0.
Proof. constructor; cbn; [exact I|constructor|constructor]. Qed.

Lemma inv_done_full : forall L x, Inv L x -> st x = Done ->
  out x = vis_spec (k_after x) (incl x) L /\ ended (k_after x) L = true.
Proof.
  intros L x I D. pose proof (inv_done _ _ I D) as E. set (p := pos (ck x) (cur x)) in *.
  rewrite <- (firstn_skipn p L) at 1 2. rewrite vis_spec_app, ended_app, E.
  split; [exact (inv_out _ _ I)|reflexivity].
Qed.

(* ---- safety and completeness for every schedule ---- *)
Theorem interleaving : forall bk acts x, Forall legal acts ->
  let s := run bk sys0 acts in
  In x (subs s) ->
  let V := vis_spec (k_after x) (incl x) (log s) in
  prefix (out x) V /\
  (st x = Done -> out x = V /\ ended (k_after x) (log s) = true) /\
  (st x = Waiting -> wk x <> WPoll -> pend s = O -> out x = V /\ ended (k_after x) (log s) = false) /\
  st x <> Stuck.
Proof.
  intros bk acts x F s Hx V. pose proof (run_inv bk acts sys0 sys0_inv F) as [G FI FN]. fold s in G, FI, FN.
  rewrite Forall_forall in FI, FN. pose proof (FI x Hx) as I. pose proof (FN x Hx) as N.
  set (p := pos (ck x) (cur x)) in *.
  assert (EL : log s = firstn p (log s) ++ skipn p (log s)) by now rewrite firstn_skipn.
  split; [|split; [|split]].
  - unfold V. rewrite EL at 1. rewrite (inv_out _ _ I). apply vis_spec_prefix.
  - intros D. pose proof (inv_done _ _ I D) as E. fold p in E. unfold V. rewrite EL at 1 2.
    rewrite vis_spec_app, ended_app, E. split; [exact (inv_out _ _ I)|reflexivity].
  - intros W P Z. specialize (N W P). rewrite Z in N. fold p in N.
    assert (EF : firstn p (log s) = log s) by (apply firstn_all2; lia).
    pose proof (inv_out _ _ I) as O. fold p in O. rewrite EF in O. split; [exact O|].
    assert (ND : st x <> Done) by (rewrite W; discriminate).
    pose proof (inv_live _ _ I ND) as E. fold p in E. now rewrite EF in E.
  - exact (inv_stuck _ _ I).
Qed.

(* ---- catching up ---- *)
Fixpoint steps (n : nat) (bk : backend) (L : list sev) (x : sub) : sub :=
  match n with O => x | S m => steps m bk L (sub_run bk L x) end.

Lemma steps_id : forall n bk L x, st x <> Ready -> steps n bk L x = x.
Proof.
  induction n as [|n IH]; intros bk L x H; [reflexivity|]. cbn [steps].
  assert (E : sub_run bk L x = x) by (unfold sub_run; destruct (st x); congruence).
  rewrite E. now apply IH.
Qed.

Lemma until_term_length : forall l, (length (until_term l) <= length l)%nat.
Proof.
  induction l as [|a l IH]; [constructor|]. cbn [until_term length].
  destruct (is_terminal a); cbn [length]; lia.
Qed.

Lemma filter_length_le : forall {A} (f : A -> bool) l, (length (filter f l) <= length l)%nat.
Proof. induction l as [|a l IH]; cbn; [lia|]. destruct (f a); cbn; lia. Qed.

Lemma vis_spec_length : forall k inc L, (length (vis_spec k inc L) <= length L)%nat.
Proof.
  intros. unfold vis_spec, sub_spec.
  pose proof (filter_length_le (visible inc) (until_term (filter (fun e => k <? s_seq e) L))).
  pose proof (until_term_length (filter (fun e => k <? s_seq e) L)).
  pose proof (filter_length_le (fun e => k <? s_seq e) L). lia.
Qed.

Definition settled (L : list sev) (x : sub) : Prop :=
  out x = vis_spec (k_after x) (incl x) L /\
  st x = (if ended (k_after x) L then Done else Waiting).

Lemma steps_settle : forall n bk L x, gapfree L -> Inv L x -> st x = Ready ->
  (length (vis_spec (k_after x) (incl x) L) - length (out x) < n)%nat ->
  let x' := steps n bk L x in
  settled L x' /\ same_static x x' /\ Inv L x'.
Proof.
  induction n as [|n IH]; intros bk L x G I R Hn; [lia|]. cbn [steps].
  destruct (step_sem bk L x G I R) as (I1 & S1 & (rest & EV & Hrest) & _).
  set (x1 := sub_run bk L x) in *.
  destruct S1 as (C1 & C2 & C3 & C4).
  destruct rest as [|e rest].
  - destruct Hrest as [Ho Hs]. rewrite app_nil_r in EV.
    assert (NR : st x1 <> Ready) by (rewrite Hs; destruct (ended (k_after x) L); discriminate).
    rewrite (steps_id n bk L x1 NR). split; [|split; [repeat split; assumption|exact I1]].
    unfold settled. rewrite C3, C4, Ho, Hs. now split.
  - destruct Hrest as [Ho Hs]. destruct (is_terminal e) eqn:Et.
    + assert (NR : st x1 <> Ready) by (rewrite Hs; discriminate).
      rewrite (steps_id n bk L x1 NR). split; [|split; [repeat split; assumption|exact I1]].
      (* the terminal event was the last specified one *)
      destruct (inv_done_full L x1 I1 Hs) as [A B].
      unfold settled. rewrite B. now split.
    + assert (R1 : st x1 = Ready) by exact Hs.
      destruct (IH bk L x1 G I1 R1) as (A & (D1 & D2 & D3 & D4) & B).
      * rewrite EV, app_length in Hn. cbn [length] in Hn.
        rewrite C3, C4, EV, Ho. rewrite !app_length. cbn [length]. lia.
      * split; [exact A|]. split; [|exact B]. repeat split; congruence.
Qed.

Lemma inv_wait_full : forall L x, Inv L x -> st x = Waiting ->
  (length L <= pos (ck x) (cur x))%nat ->
  out x = vis_spec (k_after x) (incl x) L /\ ended (k_after x) L = false.
Proof.
  intros L x I W H. set (p := pos (ck x) (cur x)) in *.
  assert (EF : firstn p L = L) by (apply firstn_all2; lia).
  pose proof (inv_out _ _ I) as O. fold p in O. rewrite EF in O. split; [exact O|].
  assert (ND : st x <> Done) by (rewrite W; discriminate).
  pose proof (inv_live _ _ I ND) as E. fold p in E. now rewrite EF in E.
Qed.

Lemma nth_error_upd : forall {A} (f : A -> A) i l x,
  nth_error l i = Some x -> nth_error (upd f i l) i = Some (f x).
Proof.
  intros A f i l. revert i. induction l as [|a l IH]; intros [|i] x H; try discriminate.
  - cbn in *. congruence.
  - cbn in *. now apply IH.
Qed.

Lemma run_cons : forall bk s a l, run bk s (a :: l) = run bk (act bk s a) l.
Proof. reflexivity. Qed.

Lemma run_steps : forall n bk s i x, nth_error (subs s) i = Some x ->
  let s' := run bk s (repeat (AStep i) n) in
  log s' = log s /\ pend s' = pend s /\ nth_error (subs s') i = Some (steps n bk (log s) x).
Proof.
  induction n as [|n IH]; intros bk s i x H; [now repeat split|].
  cbn [repeat steps]. rewrite run_cons.
  destruct (IH bk (act bk s (AStep i)) i (sub_run bk (log s) x)) as (A & B & C).
  { cbn [act subs]. now apply nth_error_upd. }
  cbn [act log pend] in A, B, C. now repeat split.
Qed.

(* once the writers are done, a subscriber that keeps being scheduled (and, for the polling kinds,
   whose poll interval elapses) ends with exactly the specified stream: closed if a terminal event
   above its cursor is in the log, waiting otherwise *)
Theorem catch_up : forall bk acts i x, Forall legal acts ->
  let s := run bk sys0 acts in
  pend s = O -> nth_error (subs s) i = Some x ->
  let s' := run bk s (ATimeout i :: repeat (AStep i) (S (length (log s)))) in
  log s' = log s /\
  exists x', nth_error (subs s') i = Some x' /\ k_after x' = k_after x /\ incl x' = incl x /\
             out x' = vis_spec (k_after x) (incl x) (log s) /\
             st x' = (if ended (k_after x) (log s) then Done else Waiting).
Proof.
  intros bk acts i x F s Hp Hx s'. pose proof (run_inv bk acts sys0 sys0_inv F) as [G FI FN]. fold s in G, FI, FN.
  rewrite Forall_forall in FI, FN. pose proof (nth_error_In _ _ Hx) as Hin.
  pose proof (FI x Hin) as I. pose proof (FN x Hin) as N. rewrite Hp in N.
  unfold s'. rewrite run_cons.
  set (x1 := wake_timeout x).
  destruct (run_steps (S (length (log s))) bk (act bk s (ATimeout i)) i x1) as (A & B & C).
  { cbn [act subs]. now apply nth_error_upd. }
  cbn [act log pend] in A, B, C. split; [exact A|].
  exists (steps (S (length (log s))) bk (log s) x1). split; [exact C|].
  assert (K : Inv (log s) x1 /\ k_after x1 = k_after x /\ incl x1 = incl x /\
              (st x1 = Ready \/ (st x1 = Done) \/
               (st x1 = Waiting /\ (length (log s) <= pos (ck x1) (cur x1))%nat))).
  { unfold x1. destruct (wake_timeout_cases x) as [[W ->]|[-> Wc]].
    - split; [now apply Inv_wake|]. cbn. auto.
    - split; [exact I|]. split; [reflexivity|]. split; [reflexivity|].
      destruct (st x) eqn:Es; auto.
      + (* waiting and not woken by the timeout: a condition-only subscriber *)
        right. right. split; [reflexivity|].
        assert (P : wk x <> WPoll) by (rewrite (Wc eq_refl); discriminate).
        specialize (N Es P). lia.
      + exfalso. exact (inv_stuck _ _ I Es). }
  destruct K as (I1 & K1 & K2 & [R|[D|[W Hl]]]).
  - destruct (steps_settle (S (length (log s))) bk (log s) x1 G I1 R) as ([S1 S2] & (D1 & D2 & D3 & D4) & _).
    { pose proof (vis_spec_length (k_after x1) (incl x1) (log s)). lia. }
    rewrite D3, D4, K1, K2 in *. auto.
  - rewrite steps_id by (rewrite D; discriminate).
    destruct (inv_done_full _ _ I1 D) as [O E]. rewrite K1, K2 in *. rewrite E. auto.
  - rewrite steps_id by (rewrite W; discriminate).
    destruct (inv_wait_full _ _ I1 W Hl) as [O E]. rewrite K1, K2 in *. rewrite E. auto.
Qed.

(* ================================================================================== *)
(* 7. The two stores behave identically                                                 *)
(* ================================================================================== *)

(* a schedule that does not mention the backend *)
Inductive xact :=
| XWrite (e : evt) | XNotify | XStep (i : nat)
| XSubscribe (base : bool) (k : Z) (inc : bool).

Definition conc (bk : backend) (a : xact) : action :=
  match a with
  | XWrite e => AWrite e
  | XNotify => ANotify
  | XStep i => AStep i
  | XSubscribe base k inc => ASubscribe (if base then base_sub k else store_sub bk k inc)
  end.

Lemma conc_legal : forall bk a, legal (conc bk a).
Proof.
  intros bk [e| |i|base k inc]; cbn; auto.
  destruct base; [|destruct bk]; unfold base_sub, store_sub; eauto.
Qed.

Definition rsub (a b : sub) : Prop :=
  out a = out b /\ st a = st b /\ k_after a = k_after b /\ incl a = incl b /\
  (wk a = WPoll <-> wk b = WPoll).

Lemma Forall2_upd : forall {A B} (R : A -> B -> Prop) f g i l m,
  Forall2 R l m -> (forall x y, R x y -> R (f x) (g y)) -> Forall2 R (upd f i l) (upd g i m).
Proof.
  intros A B R f g i l m F. revert i. induction F as [|x y l m Hxy F IH]; intros i H.
  - destruct i; constructor.
  - destruct i; cbn [upd]; constructor; auto.
Qed.

Lemma Forall2_and_Forall : forall {A B} (R : A -> B -> Prop) (P : A -> Prop) (Q : B -> Prop) l m,
  Forall2 R l m -> Forall P l -> Forall Q m -> Forall2 (fun x y => R x y /\ P x /\ Q y) l m.
Proof.
  intros A B R P Q l m F. induction F; intros FP FQ; [constructor|].
  inversion FP; inversion FQ; subst. constructor; auto.
Qed.

Lemma step_rsub : forall L a b, gapfree L -> Inv L a -> Inv L b -> rsub a b ->
  rsub (sub_run BMem L a) (sub_run BSql L b).
Proof.
  intros L a b G Ia Ib (Ro & Rs & Rk & Ri & Rw).
  destruct (st a) eqn:Ea.
  - assert (Eb : st b = Ready) by congruence.
    destruct (step_sem BMem L a G Ia Ea) as (_ & (A1 & A2 & A3 & A4) & (ra & Va & Ha) & _).
    destruct (step_sem BSql L b G Ib Eb) as (_ & (B1 & B2 & B3 & B4) & (rb & Vb & Hb) & _).
    rewrite Rk, Ri, Vb, Ro in Va. apply app_inv_head in Va. subst rb.
    rewrite Rk in Ha.
    unfold rsub. rewrite A2, A3, A4, B2, B3, B4. repeat split; try assumption; try tauto.
    + destruct ra; destruct Ha as [Ha _]; destruct Hb as [Hb _]; congruence.
    + destruct ra; destruct Ha as [_ Ha]; destruct Hb as [_ Hb]; congruence.
  - unfold sub_run. rewrite Ea, <- Rs. unfold rsub. rewrite Ea, <- Rs. repeat split; tauto.
  - unfold sub_run. rewrite Ea, <- Rs. unfold rsub. rewrite Ea, <- Rs. repeat split; tauto.
  - unfold sub_run. rewrite Ea, <- Rs. unfold rsub. rewrite Ea, <- Rs. repeat split; tauto.
Qed.

Lemma wake_rsub : forall a b, rsub a b -> rsub (wake_notify a) (wake_notify b).
Proof.
  intros a b (Ro & Rs & Rk & Ri & Rw).
  destruct (wake_notify_cases a) as [(Wa & Pa & ->)|[Na ->]];
  destruct (wake_notify_cases b) as [(Wb & Pb & ->)|[Nb ->]].
  - unfold rsub. cbn. tauto.
  - exfalso. destruct Nb as [Nb|Nb]; [congruence|tauto].
  - exfalso. destruct Na as [Na|Na]; [congruence|tauto].
  - unfold rsub. tauto.
Qed.

Record Rel (sm ss : sys) : Prop := mkRel {
  rel_log : log sm = log ss;
  rel_pend : pend sm = pend ss;
  rel_subs : Forall2 rsub (subs sm) (subs ss);
  rel_im : SysInv sm;
  rel_is : SysInv ss
}.

Lemma rel_act : forall sm ss a, Rel sm ss -> Rel (act BMem sm (conc BMem a)) (act BSql ss (conc BSql a)).
Proof.
  intros sm ss a [RL RP RS IM IS].
  assert (IM' := act_inv BMem sm _ IM (conc_legal BMem a)).
  assert (IS' := act_inv BSql ss _ IS (conc_legal BSql a)).
  constructor; try assumption; destruct a as [e| |i|base k inc]; cbn [conc act log pend subs]; try assumption;
    try congruence.
  - unfold append. rewrite !next_seq_gf by apply IM || apply IS. now rewrite RL.
  - rewrite RP. destruct (pend ss); [exact RL|exact RL].
  - rewrite RP. destruct (pend ss) eqn:Ep; [cbn; congruence|reflexivity].
  - rewrite RP. destruct (pend ss); cbn [subs]; [exact RS|].
    clear - RS. induction RS; cbn [map]; constructor; auto using wake_rsub.
  - pose proof (Forall2_and_Forall rsub _ _ _ _ RS (si_inv _ IM) (si_inv _ IS)) as F.
    assert (F' := Forall2_upd _ (sub_run BMem (log sm)) (sub_run BSql (log ss)) i _ _ F).
    cbn beta in F'.
    assert (G : gapfree (log sm)) by apply IM.
    match type of F' with ?P -> _ => assert (HP : P) end.
    { intros x y (R & Ix & Iy). rewrite <- RL in *. split; [now apply step_rsub|].
      split.
      - destruct (st x) eqn:Es; try (unfold sub_run; rewrite Es; exact Ix).
        now destruct (step_sem BMem _ x G Ix Es).
      - destruct (st y) eqn:Es; try (unfold sub_run; rewrite Es; exact Iy).
        now destruct (step_sem BSql _ y G Iy Es). }
    specialize (F' HP). clear - F'. induction F' as [|? ? ? ? [H _]]; constructor; auto.
  - apply Forall2_app; [exact RS|]. constructor; [|constructor].
    destruct base; unfold rsub, base_sub, store_sub, sub_init; cbn; repeat split; try tauto; try discriminate.
Qed.

Definition view (x : sub) : list sev * sstate := (out x, st x).

(* memory vs SQLite: same numbering, and every subscriber has produced the same stream and is in the
   same state after every prefix of every schedule of writes, notifications, resumptions and new
   subscriptions *)
Theorem backends_equivalent : forall sched,
  let sm := run BMem sys0 (map (conc BMem) sched) in
  let ss := run BSql sys0 (map (conc BSql) sched) in
  log sm = log ss /\ map view (subs sm) = map view (subs ss).
Proof.
  intros sched.
  assert (H : forall sm ss, Rel sm ss ->
            Rel (run BMem sm (map (conc BMem) sched)) (run BSql ss (map (conc BSql) sched))).
  { induction sched as [|a sched IH]; intros sm ss R; [exact R|].
    cbn [map]. rewrite !run_cons. apply IH. now apply rel_act. }
  assert (R0 : Rel sys0 sys0) by (constructor; cbn; auto using sys0_inv).
  specialize (H _ _ R0). destruct H as [RL _ RS _ _]. split; [exact RL|].
  induction RS as [|x y l m (Ro & Rs & _) _ IH]; [reflexivity|].
  cbn [map]. unfold view at 1 3. now rewrite Ro, Rs, IH.
Qed.

(* ================================================================================== *)
(* 8. Resuming, and _resolve_event_stream                                               *)
(* ================================================================================== *)

Definition upto (k : Z) (e : sev) : bool := s_seq e <=? k.

Lemma filter_upto_all : forall k l, Forall (fun e => s_seq e <= k) l -> filter (upto k) l = l.
Proof.
  induction l as [|a l IH]; intros F; [reflexivity|]. inversion F; subst. cbn [filter]. unfold upto at 1.
  replace (s_seq a <=? k) with true by lia. f_equal. auto.
Qed.

Lemma filter_upto_none : forall k l, Forall (fun e => k < s_seq e) l -> filter (upto k) l = [].
Proof.
  induction l as [|a l IH]; intros F; [reflexivity|]. inversion F; subst. cbn [filter]. unfold upto at 1.
  replace (s_seq a <=? k) with false by lia. auto.
Qed.

Lemma Forall_filter : forall {A} (P : A -> Prop) f l, Forall P l -> Forall P (filter f l).
Proof.
  induction l as [|a l IH]; intros F; [constructor|]. inversion F; subst. cbn [filter].
  destruct (f a); auto.
Qed.

Lemma until_term_incl : forall (P : sev -> Prop) l, Forall P l -> Forall P (until_term l).
Proof.
  induction l as [|a l IH]; intros F; [constructor|]. inversion F; subst. cbn [until_term].
  constructor; [assumption|]. destruct (is_terminal a); auto.
Qed.

(* A consumer that has seen the stream from cursor k0 up to sequence k (no terminal event among
   what it has seen) and subscribes again with k continues exactly where it stopped. *)
Theorem resume_compose : forall L k0 k inc, gapfree L -> k0 <= k ->
  let S0 := sub_spec k0 L in
  existsb is_terminal (filter (upto k) S0) = false ->
  filter (upto k) S0 ++ sub_spec k L = S0 /\
  filter (upto k) (vis_spec k0 inc L) ++ vis_spec k inc L = vis_spec k0 inc L.
Proof.
  intros L k0 k inc G Hk S0 NT.
  set (p := Z.to_nat (k + 1)).
  assert (GP : gf 0 (firstn p L)) by now apply gf_firstn.
  assert (GR : gf (0 + p) (skipn p L)) by now apply gf_skipn.
  assert (FP : Forall (fun e => s_seq e <= k) (firstn p L)).
  { destruct (Z_le_gt_dec 0 (k + 1)).
    - pose proof (gf_lt _ _ GP) as F. eapply Forall_impl; [|exact F]. cbn.
      pose proof (firstn_le_length p L). intros e He. lia.
    - replace p with O by lia. constructor. }
  assert (FR : Forall (fun e => k < s_seq e) (skipn p L)).
  { pose proof (gf_ge _ _ GR) as F. eapply Forall_impl; [|exact F]. cbn. intros; lia. }
  assert (E0 : sub_spec k0 (skipn p L) = sub_spec k (skipn p L)).
  { unfold sub_spec. f_equal. apply filter_ext_in. intros e He.
    rewrite Forall_forall in FR. specialize (FR e He). lia. }
  assert (EK : sub_spec k (firstn p L) = [] /\ ended k (firstn p L) = false).
  { assert (E : filter (above k) (firstn p L) = []).
    { clear - FP. induction (firstn p L) as [|a l IH]; [reflexivity|]. inversion FP; subst.
      cbn [filter]. unfold above at 1. replace (k <? s_seq a) with false by lia. auto. }
    unfold sub_spec, ended. fold (above k). now rewrite E. }
  destruct EK as [EK1 EK2].
  assert (SK : sub_spec k L = sub_spec k (skipn p L)).
  { rewrite <- (firstn_skipn p L) at 1. now rewrite sub_spec_app, EK2, EK1. }
  assert (FS : Forall (fun e => s_seq e <= k) (sub_spec k0 (firstn p L))).
  { unfold sub_spec. apply until_term_incl. now apply Forall_filter. }
  assert (FT : Forall (fun e => k < s_seq e) (sub_spec k (skipn p L))).
  { unfold sub_spec. apply until_term_incl. now apply Forall_filter. }
  assert (ES : S0 = if ended k0 (firstn p L) then sub_spec k0 (firstn p L)
                    else sub_spec k0 (firstn p L) ++ sub_spec k (skipn p L)).
  { unfold S0. rewrite <- (firstn_skipn p L) at 1. now rewrite sub_spec_app, E0. }
  destruct (ended k0 (firstn p L)) eqn:EE.
  - (* a terminal event at or below k: excluded by the hypothesis *)
    exfalso. rewrite ES, (filter_upto_all _ _ FS) in NT.
    unfold sub_spec in NT. unfold ended in EE.
    assert (X : forall l, existsb is_terminal l = true -> existsb is_terminal (until_term l) = true).
    { induction l as [|a l IH]; intros H; [discriminate|]. cbn in *.
      destruct (is_terminal a); [reflexivity|]. cbn in *. auto. }
    rewrite (X _ EE) in NT. discriminate.
  - assert (M : filter (upto k) S0 = sub_spec k0 (firstn p L)).
    { rewrite ES, filter_app, (filter_upto_all _ _ FS), (filter_upto_none _ _ FT). apply app_nil_r. }
    split.
    + rewrite M, SK. now rewrite ES.
    + unfold vis_spec. fold S0. rewrite SK.
      assert (C : forall l, filter (upto k) (filter (visible inc) l) = filter (visible inc) (filter (upto k) l)).
      { induction l as [|a l IH]; [reflexivity|]. cbn [filter].
        destruct (visible inc a) eqn:Ev; destruct (upto k a) eqn:Eu; cbn [filter]; rewrite ?Ev, ?Eu, IH; reflexivity. }
      rewrite C, M, <- filter_app. now rewrite ES.
Qed.

(* -- _resolve_event_stream -- *)
Lemma last_opt_gf : forall L, gapfree L ->
  match last_opt L with Some e => s_seq e | None => -1 end = Z.of_nat (length L) - 1.
Proof.
  intros L G. destruct L as [|a L]; [reflexivity|].
  destruct (last_opt_some (a :: L)) as [x Hx]; [discriminate|]. rewrite Hx.
  rewrite (gf_last _ 0 x G Hx). lia.
Qed.

(* "now": the cursor is the last stored sequence number, so only events appended later are streamed *)
Theorem resolve_now : forall bk L tst, gapfree L ->
  let k := Z.of_nat (length L) - 1 in
  resolve bk L (HRun tst) None =
    (if tst || match last_opt L with Some e => is_terminal e | None => false end
     then RCompleted else RStream k) /\
  forall X, gapfree (L ++ X) -> sub_spec k (L ++ X) = until_term X.
Proof.
  intros bk L tst G k. split.
  - unfold resolve. rewrite (query_all_gf bk L G), (last_opt_gf L G). fold k.
    rewrite (query_after_gf bk L k G). unfold k.
    replace (Z.to_nat (Z.of_nat (length L) - 1 + 1)) with (length L) by lia.
    now rewrite skipn_all.
  - intros X GX. unfold sub_spec. fold (above k). rewrite filter_app.
    rewrite (filter_above_none L 0 k G) by (unfold k; lia). cbn [app].
    apply gf_app in GX. destruct GX as [_ GX].
    rewrite (filter_above_all X _ k GX) by (unfold k; lia). reflexivity.
Qed.

(* an explicit cursor (after_sequence / Last-Event-ID): 204 exactly when nothing above the cursor is
   stored and the run is over; otherwise a subscription with that very cursor *)
Theorem resolve_cursor : forall bk L tst k, gapfree L ->
  resolve bk L (HRun tst) (Some k) =
    (if (length L <=? Z.to_nat (k + 1))%nat &&
        (tst || match last_opt L with Some e => is_terminal e | None => false end)
     then RCompleted else RStream k).
Proof.
  intros bk L tst k G. unfold resolve. rewrite (query_all_gf bk L G), (query_after_gf bk L k G).
  destruct (skipn (Z.to_nat (k + 1)) L) as [|a r] eqn:E.
  - assert (H : (length L <= Z.to_nat (k + 1))%nat).
    { pose proof (f_equal (@length _) E) as EL. rewrite skipn_length in EL. cbn in EL. lia. }
    apply Nat.leb_le in H. now rewrite H.
  - assert (H : (Z.to_nat (k + 1) < length L)%nat).
    { pose proof (f_equal (@length _) E) as EL. rewrite skipn_length in EL. cbn [length] in EL. lia. }
    apply Nat.leb_gt in H. now rewrite H.
Qed.

(* a 204 never hides an event: nothing above the cursor is stored *)
Theorem resolve_completed_sound : forall bk L h after inc, gapfree L ->
  resolve bk L h after = RCompleted ->
  forall k, after = Some k -> vis_spec k inc L = [] .
Proof.
  intros bk L h after inc G H k ->. destruct h as [| |tst]; try discriminate.
  unfold resolve in H. rewrite (query_after_gf bk L k G) in H.
  destruct (skipn (Z.to_nat (k + 1)) L) eqn:E; [|discriminate].
  unfold vis_spec, sub_spec. fold (above k). rewrite (filter_above_gf L 0 k G).
  replace (k + 1 - Z.of_nat 0) with (k + 1) by lia. now rewrite E.
Qed.

(* ================================================================================== *)
(* 9. Reading of the statement for a stored log                                         *)
(* ================================================================================== *)

Definition appends (es : list evt) : list action := flat_map (fun e => [AWrite e; ANotify]) es.

Lemma appends_legal : forall es, Forall legal (appends es).
Proof. induction es; cbn; repeat constructor; auto. Qed.

Lemma run_app : forall bk s a b, run bk s (a ++ b) = run bk (run bk s a) b.
Proof. intros. unfold run. now rewrite fold_left_app. Qed.

Lemma run_appends : forall bk es s, pend s = O -> subs s = [] ->
  run bk s (appends es) = mkSys (build_from bk (log s) es) O [].
Proof.
  induction es as [|e es IH]; intros s Hp Hs.
  - cbn. destruct s; cbn in *; now subst.
  - cbn [appends flat_map app]. rewrite !run_cons. cbn [act]. rewrite Hp, Hs. cbn [map pend log subs].
    fold (appends es). rewrite IH by reflexivity. reflexivity.
Qed.

(* append es, subscribe after k, let the subscriber run: it yields exactly the events numbered above
   k, in order, once each, ending right after the first terminal one (and is then closed) *)
Theorem subscribe_stored : forall bk es c w k inc,
  let L := build bk es in
  let s := run bk sys0 (appends es ++ [ASubscribe (sub_init c w k inc)] ++
                        ATimeout 0 :: repeat (AStep 0) (S (length es))) in
  log s = L /\
  exists x, nth_error (subs s) 0 = Some x /\ out x = vis_spec k inc L /\
            st x = (if ended k L then Done else Waiting).
Proof.
  intros bk es c w k inc L s.
  set (acts := appends es ++ [ASubscribe (sub_init c w k inc)]).
  assert (F : Forall legal acts).
  { apply Forall_app. split; [apply appends_legal|]. constructor; [|constructor]. cbn. eauto. }
  assert (E : run bk sys0 acts = mkSys L O [sub_init c w k inc]).
  { unfold acts. rewrite run_app, run_appends by reflexivity. reflexivity. }
  pose proof (catch_up bk acts 0 (sub_init c w k inc) F) as C. cbn zeta in C. rewrite E in C.
  cbn [pend log subs nth_error] in C. specialize (C eq_refl eq_refl).
  assert (EL : length L = length es).
  { unfold L. destruct (numbering bk es) as [_ M]. rewrite <- (map_length s_ev), M. reflexivity. }
  rewrite EL in C.
  assert (ES : s = run bk (mkSys L O [sub_init c w k inc]) (ATimeout 0 :: repeat (AStep 0) (S (length es)))).
  { unfold s. rewrite app_assoc. fold acts. now rewrite run_app, E. }
  rewrite <- ES in C. destruct C as [C1 (x & C2 & C3 & C4 & C5 & C6)]. split; [exact C1|].
  exists x. cbn [k_after incl sub_init] in *. auto.
Qed.

(* ================================================================================== *)
(* 10. The cursor a request asks for                                                    *)
(* ================================================================================== *)

(* In SSE mode an integer Last-Event-ID decides the cursor whatever after_sequence says (unless that is
   malformed: 400 comes first); otherwise after_sequence decides, and "now"/absent defers to the log. *)
Theorem stream_cursor_spec : forall sse a l,
  stream_cursor sse a l =
  match a with
  | PGarbage => None
  | _ => Some (match sse, l with
               | true, LInt n => Some n
               | _, _ => match a with PInt n => Some n | _ => None end
               end)
  end.
Proof. intros [|] [| |n|] [|m|]; reflexivity. Qed.

(* a browser-style reconnect: the stream resumed through Last-Event-ID = k is the subscription after k *)
Theorem reconnect_by_header : forall bk L tst a k, gapfree L -> a <> PGarbage ->
  exists c, stream_cursor true a (LInt k) = Some (Some c) /\
            resolve bk L (HRun tst) (Some c) = resolve bk L (HRun tst) (Some k).
Proof.
  intros bk L tst a k G Ha. exists k. split; [|reflexivity].
  destruct a; try reflexivity. congruence.
Qed.
