(* C27, composition with the reducer model: the control loop turns each completed task into a tick and folds the
   pure reducer (Model/Engine.v `reduce`) over the tick sequence.  Same completion order + DBOS's recorded step
   outputs  =>  same ticks  =>  same state and commands for the replayed part, and the recovered run continues from
   exactly the state the uninterrupted run had there. *)
From Coq Require Import List ZArith Bool PeanoNat Lia.
Import ListNotations.
From WF Require Model.Engine.
From WF Require Import Model.Journal Proofs.JournalProofs.
Open Scope Z_scope.

(* fold the reducer along (tick, now) pairs, collecting the command lists *)
Fixpoint reduce_all (P : Engine.policy) (s : Engine.state) (ts : list (Engine.tick * Z))
  : Engine.res (Engine.state * list (list Engine.command)) :=
  match ts with
  | [] => Engine.Ok (s, [])
  | (t, now) :: r =>
      match Engine.reduce P t s now with
      | Engine.Err c => Engine.Err c
      | Engine.Ok (s', cs) =>
          match reduce_all P s' r with
          | Engine.Err c => Engine.Err c
          | Engine.Ok (s'', css) => Engine.Ok (s'', cs :: css)
          end
      end
  end.

Lemma reduce_all_app P s a b :
  reduce_all P s (a ++ b) =
  match reduce_all P s a with
  | Engine.Err c => Engine.Err c
  | Engine.Ok (s1, cs1) =>
      match reduce_all P s1 b with
      | Engine.Err c => Engine.Err c
      | Engine.Ok (s2, cs2) => Engine.Ok (s2, cs1 ++ cs2)
      end
  end.
Proof.
  revert s. induction a as [|[t now] a IH]; intro s; cbn.
  - destruct (reduce_all P s b) as [[s2 cs2]|c]; reflexivity.
  - destruct (Engine.reduce P t s now) as [[s' cs]|c]; [|reflexivity].
    rewrite IH. destruct (reduce_all P s' a) as [[s1 cs1]|c]; [|reflexivity].
    destruct (reduce_all P s1 b) as [[s2 cs2]|c]; reflexivity.
Qed.

Section Compose.
  (* what the i-th completed task (key k) hands to the loop, and the durable clock reading of that iteration *)
  Variable out1 out2 : nat -> Z -> Engine.tick.     (* run 1 = recorded execution, run 2 = recovered execution *)
  Variable now1 now2 : nat -> Z.

  Fixpoint ticks_from (out : nat -> Z -> Engine.tick) (now : nat -> Z) (i : nat) (ks : list Z)
    : list (Engine.tick * Z) :=
    match ks with
    | [] => []
    | k :: r => (out i k, now i) :: ticks_from out now (S i) r
    end.

  Lemma ticks_from_app out now i a b :
    ticks_from out now i (a ++ b) = ticks_from out now i a ++ ticks_from out now (i + length a) b.
  Proof.
    revert i. induction a as [|k a IH]; intro i; cbn.
    - now rewrite Nat.add_0_r.
    - rewrite IH. do 2 f_equal. f_equal. lia.
  Qed.

  Variable K : list Z.       (* the recorded completion order *)
  (* DBOS (trusted, library absent): a recovered step returns its recorded output, and _durable_time() its
     recorded value, for every operation that completed before the crash *)
  Hypothesis dbos_memo : forall i k, (i < length K)%nat -> out2 i k = out1 i k /\ now2 i = now1 i.

  Lemma ticks_memo : forall ks i, (i + length ks <= length K)%nat ->
    ticks_from out2 now2 i ks = ticks_from out1 now1 i ks.
  Proof.
    induction ks as [|k ks IH]; intros i H; cbn in *; [reflexivity|].
    destruct (dbos_memo i k) as [-> ->]; [lia|]. f_equal. apply IH. lia.
  Qed.

  (* the recovered loop saw K ++ fresh (replay_same_order); its tick sequence starts with the recorded one *)
  Theorem recovered_ticks_extend fresh :
    ticks_from out2 now2 0 (K ++ fresh)
    = ticks_from out1 now1 0 K ++ ticks_from out2 now2 (length K) fresh.
  Proof. rewrite ticks_from_app, ticks_memo; [reflexivity|cbn; lia]. Qed.

  (* ... hence the reducer reaches the same state and emits the same commands on the replayed part, and goes on
     from there *)
  Theorem recovered_reduction P s0 fresh :
    reduce_all P s0 (ticks_from out2 now2 0 (K ++ fresh)) =
    match reduce_all P s0 (ticks_from out1 now1 0 K) with
    | Engine.Err c => Engine.Err c
    | Engine.Ok (sK, csK) =>
        match reduce_all P sK (ticks_from out2 now2 (length K) fresh) with
        | Engine.Err c => Engine.Err c
        | Engine.Ok (s', cs') => Engine.Ok (s', csK ++ cs')
        end
    end.
  Proof. rewrite recovered_ticks_extend. apply reduce_all_app. Qed.
End Compose.

(* Composition with the journal theorem: whatever the recovered schedule, the keys handed to the loop are
   K ++ fresh, so the two statements above apply to every recovered execution without a timed-out wait in the
   replayed part. *)
Theorem recovered_run_same_reduction :
  forall run prog d0 K, replayable prog K -> rows_enum run d0 K ->
  (forall h live nx, sim prog h = Some (h, live, nx) -> NoDup (map fst live)) ->
  forall s, let st := exec run prog d0 s in
  notmo (firstn (length K) (l_hist st)) = true -> (length K <= length (l_hist st))%nat ->
  forall out1 out2 now1 now2,
  (forall i k, (i < length K)%nat -> out2 i k = out1 i k /\ now2 i = now1 i) ->
  forall P s0,
  exists fresh, keys_of (l_hist st) = K ++ fresh /\
  reduce_all P s0 (ticks_from out2 now2 0 (keys_of (l_hist st))) =
    match reduce_all P s0 (ticks_from out1 now1 0 K) with
    | Engine.Err c => Engine.Err c
    | Engine.Ok (sK, csK) =>
        match reduce_all P sK (ticks_from out2 now2 (length K) fresh) with
        | Engine.Err c => Engine.Err c
        | Engine.Ok (s', cs') => Engine.Ok (s', csK ++ cs')
        end
    end.
Proof.
  intros run prog d0 K HR Hw Hd s st Hok Hlen out1 out2 now1 now2 Hmemo P s0.
  destruct (replay_same_order run prog d0 K HR Hw Hd s Hok) as (A & _). fold st in A.
  exists (keys_of (skipn (length K) (l_hist st))).
  assert (HK : keys_of (l_hist st) = K ++ keys_of (skipn (length K) (l_hist st))).
  { rewrite <- (firstn_skipn (length K) (l_hist st)) at 1. rewrite keys_of_app, A.
    rewrite (firstn_all2 K) by lia. now rewrite keys_of_map_some. }
  split; [exact HK|]. rewrite HK. now apply recovered_reduction.
Qed.
