(* Exact bookkeeping of CommandRunWorker per tick and per step: the slots started by a tick are exactly
   the worker ids appended to in_progress (in order), plus - for a collect re-run - the tick's own slot. *)
From Coq Require Import List ZArith Bool PeanoNat Lia.
Import ListNotations.
From WF Require Import Model.Engine Proofs.EngineCap Proofs.EngineSlots Proofs.EngineTelemetry.
Open Scope Z_scope.

Fixpoint runs_of (n : Z) (cs : list command) : list nat :=
  match cs with
  | [] => []
  | CRunWorker st _ w :: t => if Z.eqb st n then w :: runs_of n t else runs_of n t
  | _ :: t => runs_of n t
  end.

Lemma runs_of_app n a b : runs_of n (a ++ b) = runs_of n a ++ runs_of n b.
Proof.
  induction a as [|c a IH]; [reflexivity|]. cbn [app runs_of].
  destruct c; try exact IH. destruct (Z.eqb step n); [cbn [app]; rewrite IH; reflexivity|exact IH].
Qed.

Definition runs_only (n : Z) (cs : list command) : Prop := forall m, m <> n -> runs_of m cs = [].

Lemma runs_only_app n a b : runs_only n a -> runs_only n b -> runs_only n (a ++ b).
Proof. intros A B m Hm. rewrite runs_of_app, (A m Hm), (B m Hm). reflexivity. Qed.
Lemma runs_only_nil n : runs_only n [].
Proof. intros m _. reflexivity. Qed.

(* add_or_enqueue: the started slot (if any) is appended to in_progress *)
Lemma aoe_runs_exact n a w now w' cs :
  add_or_enqueue n a w now = Ok (w', cs) -> wids w' = wids w ++ runs_of n cs /\ runs_only n cs.
Proof.
  unfold add_or_enqueue. destruct (Nat.ltb _ _).
  - destruct (first_free _ _ _) as [id|]; [|discriminate]. intros H; inversion H; subst; clear H. split.
    + cbn [runs_of]. rewrite Z.eqb_refl. unfold wids. cbn [inprogress set_w]. rewrite map_app. reflexivity.
    + intros m Hm. cbn [runs_of]. destruct (Z.eqb_spec n m) as [->|_]; [contradiction|reflexivity].
  - intros H; inversion H; subst; clear H. split.
    + cbn [runs_of]. rewrite app_nil_r. reflexivity.
    + intros m Hm. reflexivity.
Qed.

Lemma drain_runs_exact n fuel : forall w now w' cs,
  drain n w now fuel = Ok (w', cs) -> wids w' = wids w ++ runs_of n cs /\ runs_only n cs.
Proof.
  induction fuel as [|f IH]; intros w now w' cs H; cbn [drain] in H.
  { inversion H; subst. split; [cbn; rewrite app_nil_r; reflexivity|apply runs_only_nil]. }
  destruct (queue w) as [|a q].
  { inversion H; subst. split; [cbn; rewrite app_nil_r; reflexivity|apply runs_only_nil]. }
  destruct (Nat.ltb _ _).
  2:{ inversion H; subst. split; [cbn; rewrite app_nil_r; reflexivity|apply runs_only_nil]. }
  destruct (add_or_enqueue _ _ _ _) as [[w1 c1]|] eqn:A; [|discriminate].
  destruct (drain n w1 now f) as [[w2 c2]|] eqn:D; [|discriminate].
  inversion H; subst; clear H.
  destruct (aoe_runs_exact _ _ _ _ _ _ A) as [E1 O1]. destruct (IH _ _ _ _ D) as [E2 O2].
  split; [|apply runs_only_app; assumption].
  change (wids (set_w w q (inprogress w) (collected w) (waiters w))) with (wids w) in E1.
  rewrite runs_of_app, app_assoc, <- E1. exact E2.
Qed.

Lemma waiter_pass_runs_exact n e : forall todo done w now acc hit w' cs h,
  waiter_pass n e done todo w now acc hit = Ok (w', cs, h) ->
  exists cs2, cs = acc ++ cs2 /\ wids w' = wids w ++ runs_of n cs2 /\ runs_only n cs2.
Proof.
  induction todo as [|wt rest IH]; intros done w now acc hit w' cs h H; cbn [waiter_pass] in H.
  { inversion H; subst. exists []. rewrite !app_nil_r. split; [reflexivity|split; [reflexivity|apply runs_only_nil]]. }
  destruct (negb (w_pending wt) && waiter_matches e wt).
  - destruct (add_or_enqueue _ _ _ _) as [[w2 c2]|] eqn:A; [|discriminate].
    destruct (aoe_runs_exact _ _ _ _ _ _ A) as [E1 O1].
    change (wids (set_w w (queue w) (inprogress w) (collected w) (done ++ resolve e wt :: rest))) with (wids w) in E1.
    destruct (IH _ _ _ _ _ _ _ _ H) as [cs2 [-> [E2 O2]]].
    exists (c2 ++ cs2). rewrite app_assoc. split; [reflexivity|split].
    + rewrite runs_of_app, app_assoc, <- E1. exact E2.
    + apply runs_only_app; assumption.
  - apply (IH _ _ _ _ _ _ _ _ H).
Qed.

(* per-step relation for list-of-workers functions *)
Definition runs_rel (cs : list command) (p p' : Z * wstate) : Prop :=
  fst p' = fst p /\ wids (snd p') = wids (snd p) ++ runs_of (fst p) cs.
Definition runs_mention (keys : list Z) (cs : list command) : Prop := forall m, ~ In m keys -> runs_of m cs = [].

Lemma runs_mention_app keys a b : runs_mention keys a -> runs_mention keys b -> runs_mention keys (a ++ b).
Proof. intros A B m Hm. rewrite runs_of_app, (A m Hm), (B m Hm). reflexivity. Qed.

Lemma Forall2_runs_extend_l cs0 cs ws ws' :
  (forall m, In m (map fst ws) -> runs_of m cs0 = []) ->
  Forall2 (runs_rel cs) ws ws' -> Forall2 (runs_rel (cs0 ++ cs)) ws ws'.
Proof.
  intros Hm F. induction F as [|p p' l l' [K R] F IH]; constructor.
  - split; [exact K|]. rewrite runs_of_app, (Hm (fst p) (or_introl eq_refl)). exact R.
  - apply IH. intros m Hin. apply Hm. right. exact Hin.
Qed.

Lemma add_waiters_runs_exact e target : forall ws now ws' cs hits,
  NoDup (map fst ws) -> add_waiters e target ws now = Ok (ws', cs, hits) ->
  Forall2 (runs_rel cs) ws ws' /\ runs_mention (map fst ws) cs.
Proof.
  induction ws as [|[n w] t IH]; intros now ws' cs hits ND H; cbn [add_waiters] in H.
  { inversion H; subst. split; [constructor|intros m _; reflexivity]. }
  inversion ND as [|? ? Hnotin ND']; subst.
  destruct (if target_ok target n then waiter_pass n e [] (waiters w) w now [] false else Ok (w, [], false))
    as [[[w1 c1] h1]|] eqn:W; [|discriminate].
  destruct (add_waiters e target t now) as [[[t' c'] hs]|] eqn:R; [|discriminate].
  inversion H; subst; clear H.
  destruct (IH _ _ _ _ ND' R) as [F M].
  assert (wids w1 = wids w ++ runs_of n c1 /\ runs_only n c1) as [T1 O1].
  { destruct (target_ok target n).
    - destruct (waiter_pass_runs_exact _ _ _ _ _ _ _ _ _ _ _ W) as [cs2 [-> [T O]]]. split; assumption.
    - inversion W; subst. split; [cbn; rewrite app_nil_r; reflexivity|apply runs_only_nil]. }
  split.
  - constructor.
    + split; [reflexivity|]. cbn [fst snd]. rewrite runs_of_app, (M n Hnotin), app_nil_r. exact T1.
    + apply Forall2_runs_extend_l; [|exact F]. intros m Hin. apply O1. intros ->. contradiction.
  - apply runs_mention_app.
    + intros m Hm. apply O1. intros ->. apply Hm. left. reflexivity.
    + intros m Hm. apply M. intros X. apply Hm. right. exact X.
Qed.

Lemma add_routes_runs_exact a target skip : forall ws now ws' cs h,
  NoDup (map fst ws) -> add_routes a target skip ws now = Ok (ws', cs, h) ->
  Forall2 (runs_rel cs) ws ws' /\ runs_mention (map fst ws) cs.
Proof.
  induction ws as [|[n w] t IH]; intros now ws' cs h ND H; cbn [add_routes] in H.
  { inversion H; subst. split; [constructor|intros m _; reflexivity]. }
  inversion ND as [|? ? Hnotin ND']; subst.
  set (take := negb (zmem n skip) && zmem (ety (a_ev a)) (accepts (w_cfg w)) && target_ok target n) in *.
  destruct (if take then add_or_enqueue n a w now else Ok (w, [])) as [[w1 c1]|] eqn:W; [|discriminate].
  destruct (add_routes a target skip t now) as [[[t' c'] h']|] eqn:R; [|discriminate].
  inversion H; subst; clear H.
  destruct (IH _ _ _ _ ND' R) as [F M].
  assert (wids w1 = wids w ++ runs_of n c1 /\ runs_only n c1) as [T1 O1].
  { destruct take.
    - apply (aoe_runs_exact _ _ _ _ _ _ W).
    - inversion W; subst. split; [cbn; rewrite app_nil_r; reflexivity|apply runs_only_nil]. }
  split.
  - constructor.
    + split; [reflexivity|]. cbn [fst snd]. rewrite runs_of_app, (M n Hnotin), app_nil_r. exact T1.
    + apply Forall2_runs_extend_l; [|exact F]. intros m Hin. apply O1. intros ->. contradiction.
  - apply runs_mention_app.
    + intros m Hm. apply O1. intros ->. apply Hm. left. reflexivity.
    + intros m Hm. apply M. intros X. apply Hm. right. exact X.
Qed.

Lemma Forall2_runs_keys cs ws ws' : Forall2 (runs_rel cs) ws ws' -> map fst ws' = map fst ws.
Proof. intros F. induction F as [|p p' l l' [R _] F IH]; [reflexivity|]. cbn [map]. rewrite R, IH. reflexivity. Qed.

Lemma Forall2_runs_compose c1 c2 ws1 : forall ws2 ws3,
  Forall2 (runs_rel c1) ws1 ws2 -> Forall2 (runs_rel c2) ws2 ws3 -> Forall2 (runs_rel (c1 ++ c2)) ws1 ws3.
Proof.
  induction ws1 as [|p t IH]; intros ws2 ws3 F1 F2.
  - inversion F1; subst. inversion F2; subst. constructor.
  - inversion F1 as [|? p2 ? t2 [K1 T1] F1']; subst. inversion F2 as [|? p3 ? t3 [K2 T2] F2']; subst.
    constructor; [|eapply IH; eassumption].
    split; [congruence|]. rewrite runs_of_app, app_assoc, <- T1. rewrite K1 in T2. exact T2.
Qed.

Lemma Forall2_runs_extend_r cs cs0 ws ws' :
  (forall m, runs_of m cs0 = []) -> Forall2 (runs_rel cs) ws ws' -> Forall2 (runs_rel (cs ++ cs0)) ws ws'.
Proof.
  intros E F. induction F as [|p p' l l' [K T] F IH]; constructor; [|exact IH].
  split; [exact K|]. rewrite runs_of_app, E, app_nil_r. exact T.
Qed.

(* an add-event tick: every started slot is a NEW entry of in_progress, appended in command order *)
Theorem process_add_runs_exact a target s now s' cs :
  Keys_ok s -> process_add a target s now = Ok (s', cs) ->
  Forall2 (runs_rel cs) (workers s) (workers s').
Proof.
  unfold process_add, Keys_ok. intros ND H.
  destruct (add_waiters _ _ _ _) as [[[ws1 cs1] hits]|] eqn:W; [|discriminate].
  destruct (add_routes _ _ _ _ _) as [[[ws2 cs2] routed]|] eqn:R; [|discriminate].
  inversion H; subst; clear H. cbn [workers with_workers].
  destruct (add_waiters_runs_exact _ _ _ _ _ _ _ ND W) as [F1 _].
  assert (NoDup (map fst ws1)) as ND1 by (rewrite (Forall2_runs_keys _ _ _ F1); exact ND).
  destruct (add_routes_runs_exact _ _ _ _ _ _ _ _ ND1 R) as [F2 _].
  rewrite app_assoc. apply Forall2_runs_extend_r.
  - intros m. repeat match goal with |- context [if ?b then _ else _] => destruct b end; reflexivity.
  - eapply Forall2_runs_compose; eassumption.
Qed.

(* ---------- step-result tick ---------- *)
(* the result loop issues CommandRunWorker only as a collect re-run of the tick's own slot *)
Lemma results_loop_runs P step wid w ws tev dc now rs a0 a :
  acc_ok step wid w ws a0 -> results_loop P step tev dc now a0 rs = Ok a ->
  (forall m, m <> step -> runs_of m (k_cmds a0) = []) -> Forall (eq wid) (runs_of step (k_cmds a0)) ->
  (runs_of step (k_cmds a0) <> [] -> k_keep a0 = true) ->
  (forall m, m <> step -> runs_of m (k_cmds a) = []) /\ Forall (eq wid) (runs_of step (k_cmds a)) /\
  (runs_of step (k_cmds a) <> [] -> k_keep a = true).
Proof.
  intros Hok RL H1 H2 H3.
  pose proof (results_loop_ok _ _ _ _ _ _ _ _ _ _ _ Hok RL) as [_ _ Hc _].
  assert (forall m k, In k (runs_of m (k_cmds a)) -> m = step /\ k = wid /\ k_keep a = true) as X.
  { intros m k. generalize (k_cmds a) Hc. clear. intros cs Hc Hin.
    induction cs as [|c t IH]; [destruct Hin|]. cbn [runs_of] in Hin.
    assert (forall st e k0, In (CRunWorker st e k0) t -> st = step /\ k0 = wid /\ k_keep a = true) as Hc'
      by (intros; eapply Hc; right; eassumption).
    destruct c; try (apply IH; assumption).
    destruct (Z.eqb_spec step0 m) as [->|Hne]; [|apply IH; assumption].
    destruct Hin as [<-|Hin]; [|apply IH; assumption].
    destruct (Hc m e wid0 (or_introl eq_refl)) as [-> [-> K]]. auto. }
  repeat split.
  - intros m Hm. destruct (runs_of m (k_cmds a)) as [|k r] eqn:E; [reflexivity|].
    destruct (X m k) as [-> _]; [rewrite E; left; reflexivity|contradiction].
  - apply Forall_forall. intros k Hin. destruct (X step k Hin) as [_ [-> _]]. reflexivity.
  - intros Hne. destruct (runs_of step (k_cmds a)) as [|k r] eqn:E; [contradiction|].
    destruct (X step k) as [_ [_ K]]; [rewrite E; left; reflexivity|exact K].
Qed.

(* what a step-result tick does to the tick's own step *)
Theorem process_step_runs_exact P step wid tev rs s now s' cs w :
  Keys_ok s -> process_step P step wid tev rs s now = Ok (s', cs) -> zlookup step (workers s) = Some w ->
  exists w' reruns fresh,
    zlookup step (workers s') = Some w' /\ runs_of step cs = reruns ++ fresh /\
    Forall (eq wid) reruns /\ In wid (wids w) /\
    ((reruns <> [] /\ wids w' = wids w ++ fresh) \/ (reruns = [] /\ wids w' = remove_nat wid (wids w) ++ fresh) \/
     (reruns = [] /\ wids w' = wids w ++ fresh)) /\
    (forall m, m <> step -> runs_of m cs = []).
Proof.
  unfold process_step, Keys_ok. intros ND H L. rewrite L in H.
  destruct (find_ip wid (inprogress w)) as [this|] eqn:F; [|discriminate].
  destruct (results_loop _ _ _ _ _ _ _) as [a|] eqn:RL; [|discriminate].
  destruct (find_ip_wid _ _ _ F) as [Fw Fin].
  assert (acc_ok step wid w (workers s) {| k_state := s; k_w := w; k_this := this; k_cmds := []; k_out := NoOut; k_keep := false |}) as Hok0.
  { constructor; cbn.
    - reflexivity.
    - exact Fw.
    - intros st e k [].
    - intros n w0 Hin Hne. exists w0. split; [exact Hin|reflexivity]. }
  destruct (results_loop_runs _ _ _ _ _ _ _ _ _ _ _ Hok0 RL (fun _ _ => eq_refl) (Forall_nil _) (fun X => match X eq_refl with end))
    as [R1 [R2 R3]].
  pose proof (results_loop_ok _ _ _ _ _ _ _ _ _ _ _ Hok0 RL) as [Hw _ _ _].
  set (reruns := runs_of step (k_cmds a)) in *.
  assert (In wid (wids w)) as Fin' by exact Fin.
  assert (forall fresh, wids (k_w a) ++ fresh = wids w ++ fresh) as HwF by (intro; rewrite Hw; reflexivity).
  destruct (k_keep a) eqn:K.
  - (* slot kept *)
    destruct (existsb is_exit (k_cmds a)).
    + inversion H; subst; clear H. exists (k_w a), reruns, []. unfold put_w; cbn [workers with_workers].
      rewrite zlookup_zupdate_eq, !app_nil_r.
      split; [reflexivity|]. split; [reflexivity|]. split; [exact R2|]. split; [exact Fin'|]. split; [|exact R1].
      destruct reruns eqn:E; [right; right; split; [reflexivity|exact Hw]|left; split; [discriminate|exact Hw]].
    + destruct (drain _ _ _ _) as [[w3 c3]|] eqn:D; [|discriminate].
      inversion H; subst; clear H. destruct (drain_runs_exact _ _ _ _ _ _ D) as [E3 O3].
      exists w3, reruns, (runs_of step c3). unfold put_w; cbn [workers with_workers].
      rewrite zlookup_zupdate_eq, runs_of_app.
      split; [reflexivity|]. split; [reflexivity|]. split; [exact R2|]. split; [exact Fin'|]. split.
      * rewrite Hw in E3. destruct reruns eqn:E; [right; right; split; [reflexivity|exact E3]|left; split; [discriminate|exact E3]].
      * intros m Hm. rewrite runs_of_app, (R1 m Hm), (O3 m Hm). reflexivity.
  - (* slot released *)
    assert (reruns = []) as Rn.
    { destruct reruns eqn:E; [reflexivity|]. assert (false = true) by (apply R3; discriminate). discriminate. }
    assert (wids (set_w (k_w a) (queue (k_w a)) (remove_ip wid (inprogress (k_w a))) (collected (k_w a)) (waiters (k_w a)))
            = remove_nat wid (wids w)) as Hrm.
    { unfold wids at 1. cbn [inprogress set_w]. rewrite remove_ip_wids. fold (wids (k_w a)). rewrite Hw. reflexivity. }
    destruct (existsb is_exit (k_cmds a)).
    + inversion H; subst; clear H. eexists. exists [], []. unfold put_w; cbn [workers with_workers].
      rewrite zlookup_zupdate_eq. cbn [runs_of app]. fold reruns. rewrite Rn, !app_nil_r.
      split; [reflexivity|]. split; [reflexivity|]. split; [constructor|]. split; [exact Fin'|]. split.
      * right. left. split; [reflexivity|exact Hrm].
      * intros m Hm. cbn [runs_of]. apply R1. exact Hm.
    + destruct (drain _ _ _ _) as [[w3 c3]|] eqn:D; [|discriminate].
      inversion H; subst; clear H. destruct (drain_runs_exact _ _ _ _ _ _ D) as [E3 O3].
      exists w3, [], (runs_of step c3). unfold put_w; cbn [workers with_workers].
      rewrite zlookup_zupdate_eq. cbn [runs_of app]. rewrite runs_of_app. fold reruns. rewrite Rn. cbn [app].
      split; [reflexivity|]. split; [reflexivity|]. split; [constructor|]. split; [exact Fin'|]. split.
      * right. left. split; [reflexivity|]. rewrite E3, Hrm. reflexivity.
      * intros m Hm. cbn [runs_of]. rewrite runs_of_app, (R1 m Hm), (O3 m Hm). reflexivity.
Qed.
