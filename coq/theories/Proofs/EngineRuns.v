(* Exact bookkeeping of CommandRunWorker per tick and per step: the slots started by a tick are exactly
   the worker ids appended to in_progress (in order), plus - for a collect re-run - the tick's own slot. *)
From Coq Require Import List ZArith Bool PeanoNat Lia.
Import ListNotations.
From WF Require Import Model.Engine Proofs.EngineCap Proofs.EngineSlots Proofs.EngineTelemetry.
Open Scope Z_scope.

Fixpoint runs_of (n : Z) (cs : list command) : list nat :=
  match cs with
  | [] => []
  | CRunWorker st _ w :: t => if Z.eqb st n then w :: runs_of n t else runs_of n t
  | _ :: t => runs_of n t
  end.

Lemma runs_of_app n a b : runs_of n (a ++ b) = runs_of n a ++ runs_of n b.
Proof.
  induction a as [|c a IH]; [reflexivity|]. cbn [app runs_of].
  destruct c; try exact IH. destruct (Z.eqb step n); [cbn [app]; rewrite IH; reflexivity|exact IH].
Qed.

Definition runs_only (n : Z) (cs : list command) : Prop := forall m, m <> n -> runs_of m cs = [].

Lemma runs_only_app n a b : runs_only n a -> runs_only n b -> runs_only n (a ++ b).
Proof. intros A B m Hm. rewrite runs_of_app, (A m Hm), (B m Hm). reflexivity. Qed.
Lemma runs_only_nil n : runs_only n [].
Proof. intros m _. reflexivity. Qed.

(* add_or_enqueue: the started slot (if any) is appended to in_progress *)
Lemma aoe_runs_exact n a w now w' cs :
  add_or_enqueue n a w now = Ok (w', cs) -> wids w' = wids w ++ runs_of n cs /\ runs_only n cs.
Proof.
  unfold add_or_enqueue. destruct (Nat.ltb _ _).
  - destruct (first_free _ _ _) as [id|]; [|discriminate]. intros H; inversion H; subst; clear H. split.
    + cbn [runs_of]. rewrite Z.eqb_refl. unfold wids. cbn [inprogress set_w]. rewrite map_app. reflexivity.
    + intros m Hm. cbn [runs_of]. destruct (Z.eqb_spec n m) as [->|_]; [contradiction|reflexivity].
  - intros H; inversion H; subst; clear H. split.
    + cbn [runs_of]. rewrite app_nil_r. reflexivity.
    + intros m Hm. reflexivity.
Qed.

Lemma drain_runs_exact n fuel : forall w now w' cs,
  drain n w now fuel = Ok (w', cs) -> wids w' = wids w ++ runs_of n cs /\ runs_only n cs.
Proof.
  induction fuel as [|f IH]; intros w now w' cs H; cbn [drain] in H.
  { inversion H; subst. split; [cbn; rewrite app_nil_r; reflexivity|apply runs_only_nil]. }
  destruct (queue w) as [|a q].
  { inversion H; subst. split; [cbn; rewrite app_nil_r; reflexivity|apply runs_only_nil]. }
  destruct (Nat.ltb _ _).
  2:{ inversion H; subst. split; [cbn; rewrite app_nil_r; reflexivity|apply runs_only_nil]. }
  destruct (add_or_enqueue _ _ _ _) as [[w1 c1]|] eqn:A; [|discriminate].
  destruct (drain n w1 now f) as [[w2 c2]|] eqn:D; [|discriminate].
  inversion H; subst; clear H.
  destruct (aoe_runs_exact _ _ _ _ _ _ A) as [E1 O1]. destruct (IH _ _ _ _ D) as [E2 O2].
  split; [|apply runs_only_app; assumption].
  change (wids (set_w w q (inprogress w) (collected w) (waiters w))) with (wids w) in E1.
  rewrite runs_of_app, app_assoc, <- E1. exact E2.
Qed.

Lemma waiter_pass_runs_exact n e : forall todo done w now acc hit w' cs h,
  waiter_pass n e done todo w now acc hit = Ok (w', cs, h) ->
  exists cs2, cs = acc ++ cs2 /\ wids w' = wids w ++ runs_of n cs2 /\ runs_only n cs2.
Proof.
  induction todo as [|wt rest IH]; intros done w now acc hit w' cs h H; cbn [waiter_pass] in H.
  { inversion H; subst. exists []. rewrite !app_nil_r. split; [reflexivity|split; [reflexivity|apply runs_only_nil]]. }
  destruct (negb (w_pending wt) && waiter_matches e wt).
  - destruct (add_or_enqueue _ _ _ _) as [[w2 c2]|] eqn:A; [|discriminate].
    destruct (aoe_runs_exact _ _ _ _ _ _ A) as [E1 O1].
    change (wids (set_w w (queue w) (inprogress w) (collected w) (done ++ resolve e wt :: rest))) with (wids w) in E1.
    destruct (IH _ _ _ _ _ _ _ _ H) as [cs2 [-> [E2 O2]]].
    exists (c2 ++ cs2). rewrite app_assoc. split; [reflexivity|split].
    + rewrite runs_of_app, app_assoc, <- E1. exact E2.
    + apply runs_only_app; assumption.
  - apply (IH _ _ _ _ _ _ _ _ H).
Qed.

(* per-step relation for list-of-workers functions *)
Definition runs_rel (cs : list command) (p p' : Z * wstate) : Prop :=
  fst p' = fst p /\ wids (snd p') = wids (snd p) ++ runs_of (fst p) cs.
Definition runs_mention (keys : list Z) (cs : list command) : Prop := forall m, ~ In m keys -> runs_of m cs = [].

Lemma runs_mention_app keys a b : runs_mention keys a -> runs_mention keys b -> runs_mention keys (a ++ b).
Proof. intros A B m Hm. rewrite runs_of_app, (A m Hm), (B m Hm). reflexivity. Qed.

Lemma Forall2_runs_extend_l cs0 cs ws ws' :
  (forall m, In m (map fst ws) -> runs_of m cs0 = []) ->
  Forall2 (runs_rel cs) ws ws' -> Forall2 (runs_rel (cs0 ++ cs)) ws ws'.
Proof.
  intros Hm F. induction F as [|p p' l l' [K R] F IH]; constructor.
  - split; [exact K|]. rewrite runs_of_app, (Hm (fst p) (or_introl eq_refl)). exact R.
  - apply IH. intros m Hin. apply Hm. right. exact Hin.
Qed.

Lemma add_waiters_runs_exact e target : forall ws now ws' cs hits,
  NoDup (map fst ws) -> add_waiters e target ws now = Ok (ws', cs, hits) ->
  Forall2 (runs_rel cs) ws ws' /\ runs_mention (map fst ws) cs.
Proof.
  induction ws as [|[n w] t IH]; intros now ws' cs hits ND H; cbn [add_waiters] in H.
  { inversion H; subst. split; [constructor|intros m _; reflexivity]. }
  inversion ND as [|? ? Hnotin ND']; subst.
  destruct (if target_ok target n then waiter_pass n e [] (waiters w) w now [] false else Ok (w, [], false))
    as [[[w1 c1] h1]|] eqn:W; [|discriminate].
  destruct (add_waiters e target t now) as [[[t' c'] hs]|] eqn:R; [|discriminate].
  inversion H; subst; clear H.
  destruct (IH _ _ _ _ ND' R) as [F M].
  assert (wids w1 = wids w ++ runs_of n c1 /\ runs_only n c1) as [T1 O1].
  { destruct (target_ok target n).
    - destruct (waiter_pass_runs_exact _ _ _ _ _ _ _ _ _ _ _ W) as [cs2 [-> [T O]]]. split; assumption.
    - inversion W; subst. split; [cbn; rewrite app_nil_r; reflexivity|apply runs_only_nil]. }
  split.
  - constructor.
    + split; [reflexivity|]. cbn [fst snd]. rewrite runs_of_app, (M n Hnotin), app_nil_r. exact T1.
    + apply Forall2_runs_extend_l; [|exact F]. intros m Hin. apply O1. intros ->. contradiction.
  - apply runs_mention_app.
    + intros m Hm. apply O1. intros ->. apply Hm. left. reflexivity.
    + intros m Hm. apply M. intros X. apply Hm. right. exact X.
Qed.

Lemma add_routes_runs_exact a target skip : forall ws now ws' cs h,
  NoDup (map fst ws) -> add_routes a target skip ws now = Ok (ws', cs, h) ->
  Forall2 (runs_rel cs) ws ws' /\ runs_mention (map fst ws) cs.
Proof.
  induction ws as [|[n w] t IH]; intros now ws' cs h ND H; cbn [add_routes] in H.
  { inversion H; subst. split; [constructor|intros m _; reflexivity]. }
  inversion ND as [|? ? Hnotin ND']; subst.
  set (take := negb (zmem n skip) && zmem (ety (a_ev a)) (accepts (w_cfg w)) && target_ok target n) in *.
  destruct (if take then add_or_enqueue n a w now else Ok (w, [])) as [[w1 c1]|] eqn:W; [|discriminate].
  destruct (add_routes a target skip t now) as [[[t' c'] h']|] eqn:R; [|discriminate].
  inversion H; subst; clear H.
  destruct (IH _ _ _ _ ND' R) as [F M].
  assert (wids w1 = wids w ++ runs_of n c1 /\ runs_only n c1) as [T1 O1].
  { destruct take.
    - apply (aoe_runs_exact _ _ _ _ _ _ W).
    - inversion W; subst. split; [cbn; rewrite app_nil_r; reflexivity|apply runs_only_nil]. }
  split.
  - constructor.
    + split; [reflexivity|]. cbn [fst snd]. rewrite runs_of_app, (M n Hnotin), app_nil_r. exact T1.
    + apply Forall2_runs_extend_l; [|exact F]. intros m Hin. apply O1. intros ->. contradiction.
  - apply runs_mention_app.
    + intros m Hm. apply O1. intros ->. apply Hm. left. reflexivity.
    + intros m Hm. apply M. intros X. apply Hm. right. exact X.
Qed.

Lemma Forall2_runs_keys cs ws ws' : Forall2 (runs_rel cs) ws ws' -> map fst ws' = map fst ws.
Proof. intros F. induction F as [|p p' l l' [R _] F IH]; [reflexivity|]. cbn [map]. rewrite R, IH. reflexivity. Qed.

Lemma Forall2_runs_compose c1 c2 ws1 : forall ws2 ws3,
  Forall2 (runs_rel c1) ws1 ws2 -> Forall2 (runs_rel c2) ws2 ws3 -> Forall2 (runs_rel (c1 ++ c2)) ws1 ws3.
Proof.
  induction ws1 as [|p t IH]; intros ws2 ws3 F1 F2.
  - inversion F1; subst. inversion F2; subst. constructor.
  - inversion F1 as [|? p2 ? t2 [K1 T1] F1']; subst. inversion F2 as [|? p3 ? t3 [K2 T2] F2']; subst.
    constructor; [|eapply IH; eassumption].
    split; [congruence|]. rewrite runs_of_app, app_assoc, <- T1. rewrite K1 in T2. exact T2.
Qed.

Lemma Forall2_runs_extend_r cs cs0 ws ws' :
  (forall m, runs_of m cs0 = []) -> Forall2 (runs_rel cs) ws ws' -> Forall2 (runs_rel (cs ++ cs0)) ws ws'.
Proof.
  intros E F. induction F as [|p p' l l' [K T] F IH]; constructor; [|exact IH].
  split; [exact K|]. rewrite runs_of_app, E, app_nil_r. exact T.
Qed.

(* an add-event tick: every started slot is a NEW entry of in_progress, appended in command order *)
Theorem process_add_runs_exact a target s now s' cs :
  Keys_ok s -> process_add a target s now = Ok (s', cs) ->
  Forall2 (runs_rel cs) (workers s) (workers s').
Proof.
  unfold process_add, Keys_ok. intros ND H.
  destruct (add_waiters _ _ _ _) as [[[ws1 cs1] hits]|] eqn:W; [|discriminate].
  destruct (add_routes _ _ _ _ _) as [[[ws2 cs2] routed]|] eqn:R; [|discriminate].
  inversion H; subst; clear H. cbn [workers with_workers].
  destruct (add_waiters_runs_exact _ _ _ _ _ _ _ ND W) as [F1 _].
  assert (NoDup (map fst ws1)) as ND1 by (rewrite (Forall2_runs_keys _ _ _ F1); exact ND).
  destruct (add_routes_runs_exact _ _ _ _ _ _ _ _ ND1 R) as [F2 _].
  rewrite app_assoc. apply Forall2_runs_extend_r.
  - intros m. repeat match goal with |- context [if ?b then _ else _] => destruct b end; reflexivity.
  - eapply Forall2_runs_compose; eassumption.
Qed.

(* ---------- step-result tick ---------- *)
(* the result loop issues CommandRunWorker only as a collect re-run of the tick's own slot *)
Lemma results_loop_runs P step wid w ws tev dc now rs a0 a :
  acc_ok step wid w ws a0 -> results_loop P step tev dc now a0 rs = Ok a ->
  (forall m, m <> step -> runs_of m (k_cmds a0) = []) -> Forall (eq wid) (runs_of step (k_cmds a0)) ->
  (runs_of step (k_cmds a0) <> [] -> k_keep a0 = true) ->
  (forall m, m <> step -> runs_of m (k_cmds a) = []) /\ Forall (eq wid) (runs_of step (k_cmds a)) /\
  (runs_of step (k_cmds a) <> [] -> k_keep a = true).
Proof.
  intros Hok RL H1 H2 H3.
  pose proof (results_loop_ok _ _ _ _ _ _ _ _ _ _ _ Hok RL) as [_ _ Hc _].
  assert (forall m k, In k (runs_of m (k_cmds a)) -> m = step /\ k = wid /\ k_keep a = true) as X.
  { intros m k. generalize (k_cmds a) Hc. clear. intros cs Hc Hin.
    induction cs as [|c t IH]; [destruct Hin|]. cbn [runs_of] in Hin.
    assert (forall st e k0, In (CRunWorker st e k0) t -> st = step /\ k0 = wid /\ k_keep a = true) as Hc'
      by (intros; eapply Hc; right; eassumption).
    destruct c; try (apply IH; assumption).
    destruct (Z.eqb_spec step0 m) as [->|Hne]; [|apply IH; assumption].
    destruct Hin as [<-|Hin]; [|apply IH; assumption].
    destruct (Hc m e wid0 (or_introl eq_refl)) as [-> [-> K]]. auto. }
  repeat split.
  - intros m Hm. destruct (runs_of m (k_cmds a)) as [|k r] eqn:E; [reflexivity|].
    destruct (X m k) as [-> _]; [rewrite E; left; reflexivity|contradiction].
  - apply Forall_forall. intros k Hin. destruct (X step k Hin) as [_ [-> _]]. reflexivity.
  - intros Hne. destruct (runs_of step (k_cmds a)) as [|k r] eqn:E; [contradiction|].
    destruct (X step k) as [_ [_ K]]; [rewrite E; left; reflexivity|exact K].
Qed.

(* the number of collect re-runs of a result list: at most one per AddCollectedEvent *)
Definition is_addcoll (r : result) : bool := match r with RAddColl _ _ => true | _ => false end.

Lemma one_result_reruns P step tev dc now a r a' m :
  one_result P step tev dc now a r = Ok a' ->
  (length (runs_of m (k_cmds a')) <= length (runs_of m (k_cmds a)) + (if is_addcoll r then 1 else 0))%nat.
Proof.
  intros H. unfold one_result in H.
  break_match H; try discriminate; inversion H; subst; clear H; cbn [k_cmds is_addcoll];
    rewrite ?runs_of_app; cbn [runs_of app]; rewrite ?app_nil_r, ?app_length; cbn [length];
    repeat match goal with |- context [if ?b then _ else _] => destruct b end; cbn [length app runs_of]; lia.
Qed.

Lemma results_loop_reruns P step tev dc now m : forall rs a a',
  results_loop P step tev dc now a rs = Ok a' ->
  (length (runs_of m (k_cmds a')) <= length (runs_of m (k_cmds a)) + length (filter is_addcoll rs))%nat.
Proof.
  induction rs as [|r t IH]; intros a a' H; cbn [results_loop] in H.
  - inversion H; subst. cbn. lia.
  - destruct (one_result P step tev dc now a r) as [a1|] eqn:O; [|discriminate].
    specialize (IH _ _ H). pose proof (one_result_reruns _ _ _ _ _ _ _ _ m O) as X.
    cbn [filter]. destruct (is_addcoll r); cbn [length] in *; lia.
Qed.

(* a kept slot has been re-run: k_keep is set only together with a CommandRunWorker of the tick's own step *)
Lemma one_result_keep P step tev dc now a r a' :
  one_result P step tev dc now a r = Ok a' ->
  (k_keep a = true -> runs_of step (k_cmds a) <> []) -> (k_keep a' = true -> runs_of step (k_cmds a') <> []).
Proof.
  intros H Hk. unfold one_result in H.
  break_match H; try discriminate; inversion H; subst; clear H; cbn [k_cmds k_keep];
    rewrite ?runs_of_app; cbn [runs_of app]; rewrite ?Z.eqb_refl;
    try (intros K E; apply app_eq_nil in E; destruct E as [E _]; exact (Hk K E));
    try (intros K E; apply app_eq_nil in E; destruct E as [_ E]; discriminate E);
    try (intros K E; exact (Hk K E)).
Qed.

Lemma results_loop_keep P step tev dc now : forall rs a a',
  results_loop P step tev dc now a rs = Ok a' ->
  (k_keep a = true -> runs_of step (k_cmds a) <> []) -> (k_keep a' = true -> runs_of step (k_cmds a') <> []).
Proof.
  induction rs as [|r t IH]; intros a a' H Hk; cbn [results_loop] in H.
  - inversion H; subst. exact Hk.
  - destruct (one_result P step tev dc now a r) as [a1|] eqn:O; [|discriminate].
    apply (IH _ _ H). exact (one_result_keep _ _ _ _ _ _ _ _ O Hk).
Qed.

(* what a step-result tick does to the tick's own step *)
Theorem process_step_runs_exact P step wid tev rs s now s' cs w :
  Keys_ok s -> process_step P step wid tev rs s now = Ok (s', cs) -> zlookup step (workers s) = Some w ->
  exists w' reruns fresh,
    zlookup step (workers s') = Some w' /\ runs_of step cs = reruns ++ fresh /\
    Forall (eq wid) reruns /\ In wid (wids w) /\
    ((reruns <> [] /\ wids w' = wids w ++ fresh) \/ (reruns = [] /\ wids w' = remove_nat wid (wids w) ++ fresh) \/
     (reruns = [] /\ wids w' = wids w ++ fresh)) /\
    (forall m, m <> step -> runs_of m cs = []) /\ (length reruns <= length (filter is_addcoll rs))%nat /\
    (reruns = [] -> wids w' = remove_nat wid (wids w) ++ fresh).
Proof.
  unfold process_step, Keys_ok. intros ND H L. rewrite L in H.
  destruct (find_ip wid (inprogress w)) as [this|] eqn:F; [|discriminate].
  destruct (results_loop _ _ _ _ _ _ _) as [a|] eqn:RL; [|discriminate].
  destruct (find_ip_wid _ _ _ F) as [Fw Fin].
  assert (acc_ok step wid w (workers s) {| k_state := s; k_w := w; k_this := this; k_cmds := []; k_out := NoOut; k_keep := false |}) as Hok0.
  { constructor; cbn.
    - reflexivity.
    - exact Fw.
    - intros st e k [].
    - intros n w0 Hin Hne. exists w0. split; [exact Hin|reflexivity]. }
  destruct (results_loop_runs _ _ _ _ _ _ _ _ _ _ _ Hok0 RL (fun _ _ => eq_refl) (Forall_nil _) (fun X => match X eq_refl with end))
    as [R1 [R2 R3]].
  pose proof (results_loop_ok _ _ _ _ _ _ _ _ _ _ _ Hok0 RL) as [Hw _ _ _].
  pose proof (results_loop_reruns _ _ _ _ _ step _ _ _ RL) as RLen. cbn [k_cmds runs_of length plus] in RLen.
  pose proof (results_loop_keep _ _ _ _ _ _ _ _ RL (fun X : false = true => match Bool.diff_false_true X with end)) as Keep.
  set (reruns := runs_of step (k_cmds a)) in *.
  assert (In wid (wids w)) as Fin' by exact Fin.
  assert (forall fresh, wids (k_w a) ++ fresh = wids w ++ fresh) as HwF by (intro; rewrite Hw; reflexivity).
  destruct (k_keep a) eqn:K.
  - (* slot kept *)
    destruct (existsb is_exit (k_cmds a)).
    + inversion H; subst; clear H. exists (k_w a), reruns, []. unfold put_w; cbn [workers with_workers].
      rewrite zlookup_zupdate_eq, !app_nil_r.
      split; [reflexivity|]. split; [reflexivity|]. split; [exact R2|]. split; [exact Fin'|]. split; [|split; [exact R1|split; [exact RLen|intros E0; exfalso; exact (Keep eq_refl E0)]]].
      destruct reruns eqn:E; [right; right; split; [reflexivity|exact Hw]|left; split; [discriminate|exact Hw]].
    + destruct (drain _ _ _ _) as [[w3 c3]|] eqn:D; [|discriminate].
      inversion H; subst; clear H. destruct (drain_runs_exact _ _ _ _ _ _ D) as [E3 O3].
      exists w3, reruns, (runs_of step c3). unfold put_w; cbn [workers with_workers].
      rewrite zlookup_zupdate_eq, runs_of_app.
      split; [reflexivity|]. split; [reflexivity|]. split; [exact R2|]. split; [exact Fin'|]. split.
      * rewrite Hw in E3. destruct reruns eqn:E; [right; right; split; [reflexivity|exact E3]|left; split; [discriminate|exact E3]].
      * split; [|split; [exact RLen|intros E0; exfalso; exact (Keep eq_refl E0)]]. intros m Hm. rewrite runs_of_app, (R1 m Hm), (O3 m Hm). reflexivity.
  - (* slot released *)
    assert (reruns = []) as Rn.
    { destruct reruns eqn:E; [reflexivity|]. assert (false = true) by (apply R3; discriminate). discriminate. }
    assert (wids (set_w (k_w a) (queue (k_w a)) (remove_ip wid (inprogress (k_w a))) (collected (k_w a)) (waiters (k_w a)))
            = remove_nat wid (wids w)) as Hrm.
    { unfold wids at 1. cbn [inprogress set_w]. rewrite remove_ip_wids. fold (wids (k_w a)). rewrite Hw. reflexivity. }
    destruct (existsb is_exit (k_cmds a)).
    + inversion H; subst; clear H. eexists. exists [], []. unfold put_w; cbn [workers with_workers].
      rewrite zlookup_zupdate_eq. cbn [runs_of app]. fold reruns. rewrite Rn, !app_nil_r.
      split; [reflexivity|]. split; [reflexivity|]. split; [constructor|]. split; [exact Fin'|]. split.
      * right. left. split; [reflexivity|exact Hrm].
      * split; [|split; [cbn; lia|intros _; exact Hrm]]. intros m Hm. cbn [runs_of]. apply R1. exact Hm.
    + destruct (drain _ _ _ _) as [[w3 c3]|] eqn:D; [|discriminate].
      inversion H; subst; clear H. destruct (drain_runs_exact _ _ _ _ _ _ D) as [E3 O3].
      exists w3, [], (runs_of step c3). unfold put_w; cbn [workers with_workers].
      rewrite zlookup_zupdate_eq. cbn [runs_of app]. rewrite runs_of_app. fold reruns. rewrite Rn. cbn [app].
      split; [reflexivity|]. split; [reflexivity|]. split; [constructor|]. split; [exact Fin'|]. split.
      * right. left. split; [reflexivity|]. rewrite E3, Hrm. reflexivity.
      * split; [|split; [cbn; lia|intros _; rewrite E3, Hrm; reflexivity]]. intros m Hm. cbn [runs_of]. rewrite runs_of_app, (R1 m Hm), (O3 m Hm). reflexivity.
Qed.

(* ---------- every tick, every step ---------- *)
Lemma Forall2_runs_lookup cs : forall ws ws' n w,
  Forall2 (runs_rel cs) ws ws' -> zlookup n ws = Some w ->
  exists w', zlookup n ws' = Some w' /\ wids w' = wids w ++ runs_of n cs.
Proof.
  induction ws as [|[k v] t IH]; intros ws' n w F L; [discriminate|].
  inversion F as [|? [k' v'] ? t' [K R] F']; subst. cbn [fst snd] in *. subst k'.
  cbn [zlookup] in *. destruct (Z.eqb_spec n k) as [->|Hne].
  - inversion L; subst. exists v'. split; [reflexivity|exact R].
  - apply (IH _ _ _ F' L).
Qed.

Lemma process_step_other_steps P step wid tev rs s now s' cs n w :
  Keys_ok s -> Inv_state s -> process_step P step wid tev rs s now = Ok (s', cs) -> n <> step ->
  zlookup n (workers s) = Some w ->
  exists w', zlookup n (workers s') = Some w' /\ wids w' = wids w.
Proof.
  intros ND Hi H Hne L.
  pose proof (process_step_tel _ _ _ _ _ _ _ _ _ ND Hi H) as F.
  (* the telemetry word of another step is empty: its open set is unchanged *)
  assert (exists w', zlookup n (workers s') = Some w' /\ tel_run (wids w) (step_tel n cs) = Some (wids w')) as [w' [L' T]].
  { clear -F L. revert L. generalize (workers s) (workers s') F. clear F.
    induction l as [|[k v] t IH]; intros l' F L; [discriminate|].
    inversion F as [|? [k' v'] ? t' [K R] F']; subst. cbn [fst snd] in *. subst k'.
    cbn [zlookup] in *. destruct (Z.eqb_spec n k) as [->|Hne].
    - inversion L; subst. exists v'. split; [reflexivity|exact R].
    - apply (IH _ F' L). }
  exists w'. split; [exact L'|].
  (* step_tel n cs = [] because every StepStateChanged of a step-result tick names the tick's step *)
  assert (step_tel n cs = []) as E.
  { unfold process_step in H.
    destruct (zlookup step (workers s)) as [w0|] eqn:L0; [|discriminate].
    destruct (find_ip wid (inprogress w0)) as [this|] eqn:Fd; [|discriminate].
    destruct (results_loop _ _ _ _ _ _ _) as [a|] eqn:RL; [|discriminate].
    assert (In step (map fst (workers s))) as Hin by (eapply zlookup_in; exact L0).
    assert (acc_tel step w0 (workers s) a) as [_ Hc _].
    { eapply results_loop_tel; [|exact Hin|exact RL]. constructor; cbn; [reflexivity|intros; reflexivity|apply same_others_refl]. }
    assert (forall c3 w2 w3 f, drain step w2 now f = Ok (w3, c3) -> step_tel n c3 = []) as Dn.
    { intros c3 w2 w3 f D.
      assert (forall fuel w2 w3 c3, drain step w2 now fuel = Ok (w3, c3) -> step_tel n c3 = []) as G.
      { induction fuel as [|f0 IHf]; intros x y c D0; cbn [drain] in D0; [inversion D0; reflexivity|].
        destruct (queue x); [inversion D0; reflexivity|]. destruct (Nat.ltb _ _); [|inversion D0; reflexivity].
        destruct (add_or_enqueue _ _ _ _) as [[w1 c1]|] eqn:A; [|discriminate].
        destruct (drain step w1 now f0) as [[w4 c4]|] eqn:D1; [|discriminate]. inversion D0; subst.
        rewrite step_tel_app, (IHf _ _ _ D1), app_nil_r.
        unfold add_or_enqueue in A. destruct (Nat.ltb _ _) in A.
        - destruct (first_free _ _ _) in A; [|discriminate]. inversion A; subst. cbn [step_tel].
          destruct (Z.eqb_spec step n) as [X|_]; [congruence|reflexivity].
        - inversion A; subst. cbn [step_tel]. destruct (Z.eqb_spec step n) as [X|_]; [congruence|reflexivity]. }
      eapply G; exact D. }
    destruct (k_keep a); destruct (existsb is_exit (k_cmds a)).
    - inversion H; subst. apply Hc.
    - destruct (drain _ _ _ _) as [[w3 c3]|] eqn:D; [|discriminate]. inversion H; subst.
      rewrite step_tel_app, Hc, (Dn _ _ _ _ D). reflexivity.
    - inversion H; subst. cbn [step_tel]. destruct (Z.eqb_spec step n) as [X|_]; [congruence|apply Hc].
    - destruct (drain _ _ _ _) as [[w3 c3]|] eqn:D; [|discriminate]. inversion H; subst.
      cbn [app step_tel]. destruct (Z.eqb_spec step n) as [X|_]; [congruence|].
      rewrite step_tel_app, Hc, (Dn _ _ _ _ D). reflexivity. }
  rewrite E in T. cbn [tel_run] in T. inversion T. reflexivity.
Qed.

(* the shape of the started slots of ANY tick, per step *)
Definition own_slot (t : tick) (n : Z) (k : nat) : Prop := exists e rs, t = TStep n k e rs.

Definition runs_shape (t : tick) (n : Z) (w : wstate) (ws' : list (Z * wstate)) (cs : list command) : Prop :=
  exists w' reruns fresh,
    zlookup n ws' = Some w' /\ runs_of n cs = reruns ++ fresh /\
    (forall k, In k reruns -> own_slot t n k /\ In k (wids w) /\ wids w' = wids w ++ fresh) /\
    (wids w' = wids w ++ fresh \/ exists k, own_slot t n k /\ reruns = [] /\ wids w' = remove_nat k (wids w) ++ fresh) /\
    (length reruns <= match t with TStep _ _ _ rs => length (filter is_addcoll rs) | _ => 0 end)%nat /\
    (forall k, own_slot t n k -> reruns = [] -> In k (wids w) /\ wids w' = remove_nat k (wids w) ++ fresh) /\
    (reruns <> [] -> exists k, own_slot t n k).

Lemma shape_fresh t n w ws' cs w' :
  (forall k, ~ own_slot t n k) ->
  zlookup n ws' = Some w' -> wids w' = wids w ++ runs_of n cs -> runs_shape t n w ws' cs.
Proof.
  intros No L' E. exists w', [], (runs_of n cs). split; [exact L'|]. split; [reflexivity|]. split; [intros k []|].
  split; [left; exact E|]. split; [cbn; lia|]. split; [intros k Ho; destruct (No k Ho)|intros X; destruct (X eq_refl)].
Qed.

Lemma shape_none t n w ws' cs :
  (forall k, ~ own_slot t n k) ->
  zlookup n ws' = Some w -> runs_of n cs = [] -> runs_shape t n w ws' cs.
Proof. intros No L' E. apply (shape_fresh t n w ws' cs w No L'). rewrite E, app_nil_r. reflexivity. Qed.

Theorem reduce_runs_shape P t s now s' cs n w :
  Keys_ok s -> Inv_state s -> reduce P t s now = Ok (s', cs) -> zlookup n (workers s) = Some w ->
  runs_shape t n w (workers s') cs.
Proof.
  intros ND Hi H L. unfold reduce in H.
  assert (forall (c0 : list command) (b : bool) m, runs_of m (if b then c0 ++ [CSchedIdle] else c0) = runs_of m c0) as Sn.
  { intros c0 b m. destruct b; [|reflexivity]. rewrite runs_of_app. cbn. apply app_nil_r. }
  destruct t.
  - assert (forall k, ~ own_slot (TAdd a target) n k) as No by (intros k [e0 [rs0 X]]; discriminate X).
    destruct (process_add _ _ _ _) as [[s1 c1]|] eqn:E; [|discriminate]. inversion H; subst; clear H.
    destruct (Forall2_runs_lookup _ _ _ _ _ (process_add_runs_exact _ _ _ _ _ _ ND E) L) as [w' [L' R]].
    apply (shape_fresh _ _ _ _ _ w' No L'). rewrite Sn. exact R.
  - destruct (process_step _ _ _ _ _ _ _) as [[s1 c1]|] eqn:E; [|discriminate]. inversion H; subst; clear H.
    destruct (Z.eq_dec n step) as [->|Hne].
    + destruct (process_step_runs_exact _ _ _ _ _ _ _ _ _ _ ND E L) as [w' [reruns [fresh [L' [R [Fa [Fin [Sh [_ [RLen Rem]]]]]]]]]].
      exists w', reruns, fresh. rewrite Sn. split; [exact L'|]. split; [exact R|]. split; [|split; [|split; [exact RLen|split]]].
      * intros k Hk. rewrite Forall_forall in Fa. rewrite <- (Fa k Hk).
        split; [exists e, rs; reflexivity|]. split; [exact Fin|].
        destruct Sh as [[_ W]|[[Rn _]|[Rn _]]]; [exact W|subst; destruct Hk|subst; destruct Hk].
      * destruct Sh as [[_ W]|[[Rn W]|[_ W]]]; [left; exact W| |left; exact W].
        right. exists wid. split; [exists e, rs; reflexivity|]. split; assumption.
      * intros k [e0 [rs0 X]] Rn. assert (k = wid) as -> by (inversion X; reflexivity). split; [exact Fin|exact (Rem Rn)].
      * intros _. exists wid, e, rs. reflexivity.
    + assert (forall k, ~ own_slot (TStep step wid e rs) n k) as No by (intros k [e0 [rs0 X]]; inversion X; subst; contradiction).
      destruct (process_step_other_steps _ _ _ _ _ _ _ _ _ _ _ ND Hi E Hne L) as [w' [L' W]].
      destruct (zlookup step (workers s)) as [w0|] eqn:L0.
      * destruct (process_step_runs_exact _ _ _ _ _ _ _ _ _ _ ND E L0) as [_ [_ [_ [_ [_ [_ [_ [_ [Oth _]]]]]]]]].
        apply (shape_fresh _ _ _ _ _ w' No L'). rewrite Sn, (Oth n Hne), app_nil_r. exact W.
      * unfold process_step in E. rewrite L0 in E. discriminate.
  - assert (forall k, ~ own_slot TCancel n k) as No by (intros k [e0 [rs0 X]]; discriminate X).
    inversion H; subst; clear H. apply (shape_none _ _ _ _ _ No); [exact L|repeat match goal with |- context [if ?b then _ else _] => destruct b end; reflexivity].
  - assert (forall k, ~ own_slot (TPublish e) n k) as No by (intros k [e0 [rs0 X]]; discriminate X).
    inversion H; subst; clear H. apply (shape_none _ _ _ _ _ No); [exact L|repeat match goal with |- context [if ?b then _ else _] => destruct b end; reflexivity].
  - assert (forall k, ~ own_slot (TTimeout t) n k) as No by (intros k [e0 [rs0 X]]; discriminate X).
    inversion H; subst; clear H. apply (shape_none _ _ _ _ _ No); [exact L|repeat match goal with |- context [if ?b then _ else _] => destruct b end; reflexivity].
  - assert (forall k, ~ own_slot (TWaiterTimeout step wid) n k) as No by (intros k [e0 [rs0 X]]; discriminate X).
    destruct (process_waiter_timeout _ _ _ _) as [[s1 c1]|] eqn:E; [|discriminate]. inversion H; subst; clear H.
    unfold process_waiter_timeout in E.
    destruct (zlookup step (workers s)) as [w0|] eqn:L0; [|inversion E; subst; apply (shape_none _ _ _ _ _ No); [exact L|rewrite Sn; reflexivity]].
    destruct (find_waiter_idx _ _ _); [|inversion E; subst; apply (shape_none _ _ _ _ _ No); [exact L|rewrite Sn; reflexivity]].
    destruct (nth_error _ _) as [wt|]; [|inversion E; subst; apply (shape_none _ _ _ _ _ No); [exact L|rewrite Sn; reflexivity]].
    destruct (w_resolved wt); [inversion E; subst; apply (shape_none _ _ _ _ _ No); [exact L|rewrite Sn; reflexivity]|].
    destruct (add_or_enqueue _ _ _ _) as [[w2 c2]|] eqn:A; [|discriminate]. inversion E; subst; clear E.
    destruct (aoe_runs_exact _ _ _ _ _ _ A) as [E1 O1].
    unfold put_w; cbn [workers with_workers].
    destruct (Z.eq_dec n step) as [->|Hne].
    + rewrite L0 in L. inversion L; subst. apply (shape_fresh _ _ _ _ _ w2 No); [apply zlookup_zupdate_eq|rewrite Sn; exact E1].
    + apply (shape_none _ _ _ _ _ No); [rewrite zlookup_zupdate_neq by exact Hne; exact L|rewrite Sn; apply O1; exact Hne].
  - assert (forall k, ~ own_slot TIdleCheck n k) as No by (intros k [e0 [rs0 X]]; discriminate X).
    inversion H; subst; clear H. apply (shape_none _ _ _ _ _ No); [exact L|destruct (check_idle s'); reflexivity].
  - inversion H; subst; clear H. apply shape_none; [intros k [e0 [rs0 X]]; discriminate X|exact L|reflexivity].
Qed.
