(* C06 / C14 at the runner level (Model/Runner.v): scheduled wake-ups (delayed retries, waiter time-outs).
   - a command with a positive delay d executed at clock reading c is entered into the wake-up list for time c + d and
     does not touch the tick buffer (local);
   - for EVERY schedule: no wake-up ever fires before the time it was scheduled for (ghost `firelog`: scheduled time,
     tick, clock reading at the moment it was moved to the tick buffer);
   - for EVERY schedule the wake-up list is ordered by time, and when the loop looks at it (nothing harvested, mailbox
     empty) everything that is due fires: what stays behind is strictly in the future. *)
From Coq Require Import List ZArith Bool PeanoNat Lia Sorting.Sorted.
Import ListNotations.
From WF Require Import Model.Engine Model.Runner Proofs.RunnerTimers.
Open Scope Z_scope.

Notation wtime w := (fst (fst w)).

(* ---------- scheduling (local) ---------- *)
Lemma delayed_queue_is_scheduled r a target d :
  Runner.outcome r = ORunning -> 0 < d ->
  wakeups (do_command r (CQueue a target (Some d))) = insert_wakeup (clock r + d, wseq r, TAdd a target) (wakeups r) /\
  tbuf (do_command r (CQueue a target (Some d))) = tbuf r /\
  wseq (do_command r (CQueue a target (Some d))) = wseq r + 1.
Proof.
  intros O D. unfold do_command. rewrite O. apply Z.ltb_lt in D. rewrite D. repeat split.
Qed.

Lemma waiter_timeout_is_scheduled r s w t :
  Runner.outcome r = ORunning ->
  wakeups (do_command r (CSchedWaiterTimeout s w t)) = insert_wakeup (clock r + t, wseq r, TWaiterTimeout s w) (wakeups r) /\
  tbuf (do_command r (CSchedWaiterTimeout s w t)) = tbuf r.
Proof. intros O. unfold do_command. rewrite O. split; reflexivity. Qed.

(* ---------- the wake-up list stays ordered by time ---------- *)
Definition by_time (a b : Z * Z * tick) : Prop := wtime a <= wtime b.
Definition Sorted_w (l : list (Z * Z * tick)) : Prop := StronglySorted by_time l.

Lemma insert_wakeup_In w : forall l x, In x (insert_wakeup w l) -> x = w \/ In x l.
Proof.
  induction l as [|h t IH]; intros x H; cbn [insert_wakeup] in H.
  - destruct H as [H|[]]; auto.
  - destruct w as [[tw sw] kw]. destruct h as [[th sh] kh].
    destruct (Z.ltb tw th || (Z.eqb tw th && Z.ltb sw sh)).
    + destruct H as [H|H]; [left; auto|right; exact H].
    + destruct H as [H|H]; [right; left; exact H|]. destruct (IH _ H); [left; assumption|right; right; assumption].
Qed.

Lemma insert_wakeup_sorted w : forall l, Sorted_w l -> Sorted_w (insert_wakeup w l).
Proof.
  induction l as [|h t IH]; intros S; cbn [insert_wakeup].
  - constructor; constructor.
  - destruct w as [[tw sw] kw]. destruct h as [[th sh] kh].
    destruct (Z.ltb tw th || (Z.eqb tw th && Z.ltb sw sh)) eqn:B.
    + constructor; [exact S|]. inversion S as [|? ? St Hh]; subst.
      assert (tw <= th) as L.
      { apply orb_true_iff in B. destruct B as [B|B]; [apply Z.ltb_lt in B; lia|].
        apply andb_true_iff in B. destruct B as [B _]. apply Z.eqb_eq in B. lia. }
      constructor; [exact L|]. eapply Forall_impl; [|exact Hh]. intros x Hx. unfold by_time in *. cbn in *. lia.
    + inversion S as [|? ? St Hh]; subst. constructor; [apply IH; exact St|].
      apply Forall_forall. intros x Hx. apply insert_wakeup_In in Hx. destruct Hx as [->|Hx].
      * unfold by_time. cbn. apply orb_false_iff in B. destruct B as [B1 B2]. apply Z.ltb_ge in B1. exact B1.
      * rewrite Forall_forall in Hh. exact (Hh _ Hx).
Qed.

Lemma due_future now : forall l d rest, Sorted_w l -> due now l = (d, rest) ->
  Sorted_w rest /\ Forall (fun w => now < wtime w) rest.
Proof.
  induction l as [|[[t s] k] l IH]; intros d rest S H; cbn [due] in H.
  - inversion H; subst. split; constructor.
  - destruct (Z.leb t now) eqn:E.
    + destruct (due now l) as [d1 r1] eqn:D. inversion H; subst. inversion S; subst. exact (IH _ _ H2 eq_refl).
    + inversion H; subst. split; [exact S|]. apply Z.leb_gt in E. inversion S as [|? ? St Hh]; subst.
      constructor; [exact E|]. eapply Forall_impl; [|exact Hh]. intros x Hx. unfold by_time in Hx. cbn in Hx. lia.
Qed.

(* ---------- the invariant ---------- *)
Definition Fire_ok (r : rstate) : Prop :=
  Forall (fun f : Z * tick * Z => fst (fst f) <= snd f) (firelog r) /\ Sorted_w (wakeups r).

Lemma do_command_fire r c : Fire_ok r -> Fire_ok (do_command r c).
Proof.
  intros [A B]. unfold do_command. destruct (Runner.outcome r); try (split; assumption).
  destruct c.
  - split; assumption.
  - destruct delay as [d|]; [destruct (Z.ltb 0 d)|]; split; cbn [firelog wakeups upd]; try assumption.
    apply insert_wakeup_sorted. exact B.
  - destruct k; split; assumption.
  - split; assumption.
  - split; assumption.
  - split; assumption.
  - split; assumption.
  - destruct (idle_pending r); split; assumption.
  - split; cbn [firelog wakeups upd]; [exact A|apply insert_wakeup_sorted; exact B].
Qed.

Lemma do_commands_fire : forall cs r, Fire_ok r -> Fire_ok (fold_left do_command cs r).
Proof. induction cs as [|c t IH]; intros r H; cbn [fold_left]; [exact H|]. apply IH. apply do_command_fire. exact H. Qed.

Lemma Fire_same r r2 : firelog r2 = firelog r -> wakeups r2 = wakeups r -> Fire_ok r -> Fire_ok r2.
Proof. unfold Fire_ok. intros -> ->. exact (fun H => H). Qed.

Lemma drain_fire P : forall f r, Fire_ok r -> Fire_ok (drain_ticks P r f).
Proof.
  induction f as [|f IH]; intros r H; cbn [drain_ticks].
  - destruct (Runner.outcome r); try exact H. destruct (tbuf r); [exact H|]. eapply Fire_same; [| |exact H]; reflexivity.
  - destruct (Runner.outcome r); try exact H. destruct (tbuf r) as [|t rest]; [exact H|].
    match goal with |- context [if ?b then _ else _] => destruct b end.
    + apply IH. eapply Fire_same; [| |exact H]; reflexivity.
    + cbn [st clock upd]. destruct (reduce P t (st r) (clock r)) as [[s' cs]|c].
      * apply IH. apply do_commands_fire. unfold log_idle. destruct (publishes_idle cs); (eapply Fire_same; [| |exact H]; reflexivity).
      * eapply Fire_same; [| |exact H]; reflexivity.
Qed.

Lemma firstn_app_exact {A} (a b : list A) : firstn (length a) (a ++ b) = a.
Proof. induction a as [|x a IH]; cbn; [destruct b; reflexivity|rewrite IH; reflexivity]. Qed.

(* the wait step: a wake-up leaves the list only by firing, never early, and everything due fires *)
Lemma wait_fire r c r2 : Fire_ok r -> wait_step r c = Some r2 ->
  Fire_ok r2 /\
  (wakeups r2 = wakeups r /\ firelog r2 = firelog r \/
   exists fired, fired <> [] /\ wakeups r = fired ++ wakeups r2 /\
                 tbuf r2 = tbuf r ++ map (fun w => snd w) fired /\
                 firelog r2 = firelog r ++ map (fun w : Z * Z * tick => (wtime w, snd w, clock r)) fired /\
                 Forall (fun w => wtime w <= clock r) fired /\ Forall (fun w => clock r < wtime w) (wakeups r2)).
Proof.
  intros [A B] H. unfold wait_step in H.
  destruct (nth_error (donew r) c) as [[[[s w] ev] rs]|].
  - destruct (has_stop (cfg (st r)) rs); injection H as <-; (split; [split; assumption|left; split; reflexivity]).
  - destruct (donew r); [|discriminate H]. destruct (mailbox r).
    + destruct (due (clock r) (wakeups r)) as [d rest] eqn:Du.
      destruct (due_spec _ _ _ _ Du) as [pre [E1 [E2 E3]]]. destruct (due_future _ _ _ _ B Du) as [S2 Fu].
      destruct d as [|d0 dl].
      * destruct (pending r); [discriminate H|]. injection H as <-. split; [split; assumption|left; split; reflexivity].
      * assert (firstn (length (d0 :: dl)) (wakeups r) = pre) as Fp.
        { rewrite <- E2, map_length, E1. apply firstn_app_exact. }
        rewrite Fp in H. injection H as <-. cbn [log_fire set_wait wakeups firelog tbuf clock]. split.
        -- split; [|exact S2]. apply Forall_app. split; [exact A|].
           apply Forall_forall. intros x Hx. apply in_map_iff in Hx. destruct Hx as [w0 [<- Hw]].
           cbn. rewrite Forall_forall in E3. exact (E3 _ Hw).
        -- right. exists pre. split; [intros ->; discriminate E2|]. split; [exact E1|]. split; [rewrite E2; reflexivity|].
           split; [reflexivity|]. split; [exact E3|exact Fu].
    + injection H as <-. split; [split; assumption|left; split; reflexivity].
Qed.

Lemma rub_fire P : forall f r, Fire_ok r -> Fire_ok (run_until_blocked P r f).
Proof.
  induction f as [|f IH]; intros r H; cbn [run_until_blocked].
  - destruct (Runner.outcome r); exact H.
  - generalize (drain_fire P tick_fuel r H). generalize (drain_ticks P r tick_fuel). intros r1 H1.
    destruct (Runner.outcome r1); try exact H1.
    destruct (wait_step r1 0) as [r2|] eqn:Wt; [|exact H1].
    apply IH. exact (proj1 (wait_fire _ _ _ H1 Wt)).
Qed.

Lemma act_fire P r a : Fire_ok r -> Fire_ok (act P r a).
Proof.
  intros H. unfold act. destruct (Runner.outcome r); try exact H. apply rub_fire.
  destruct a as [s w sends rs|t|dt].
  - destruct (take_worker s w (runningw r)) as [[ev run']|]; [|exact H]. eapply Fire_same; [| |exact H]; reflexivity.
  - eapply Fire_same; [| |exact H]; reflexivity.
  - eapply Fire_same; [| |exact H]; reflexivity.
Qed.

Theorem run_fire_ok P s e now acts : Fire_ok (run_at P s e now acts).
Proof.
  unfold run_at.
  assert (Fire_ok (run_until_blocked P (start s e now) loop_fuel)) as H0.
  { apply rub_fire. split; constructor. }
  revert H0. generalize (run_until_blocked P (start s e now) loop_fuel).
  induction acts as [|a l IH]; intros r H; cbn [fold_left]; [exact H|]. apply IH. apply act_fire. exact H.
Qed.

(* no wake-up fires before its time, for every schedule *)
Theorem run_wakeups_never_fire_early P s e now acts :
  Forall (fun f : Z * tick * Z => fst (fst f) <= snd f) (firelog (run_at P s e now acts)).
Proof. exact (proj1 (run_fire_ok P s e now acts)). Qed.

Theorem run_wakeups_sorted P s e now acts : Sorted_w (wakeups (run_at P s e now acts)).
Proof. exact (proj2 (run_fire_ok P s e now acts)). Qed.

(* ---------- nothing that is due is left behind when the loop blocks ---------- *)
From WF Require Proofs.RunnerConserve.

Theorem run_no_due_wakeup_left_behind P s e now acts :
  Runner.outcome (run_at P s e now acts) = ORunning ->
  Forall (fun w => clock (run_at P s e now acts) < wtime w) (wakeups (run_at P s e now acts)).
Proof.
  intros O. pose proof (RunnerConserve.run_blocks_only_when_quiescent P s e now acts O) as [_ [_ [_ [_ Q]]]].
  pose proof (run_wakeups_sorted P s e now acts) as S.
  destruct (due (clock (run_at P s e now acts)) (wakeups (run_at P s e now acts))) as [d rest] eqn:Du.
  cbn [fst] in Q. subst d.
  destruct (due_spec _ _ _ _ Du) as [pre [E1 [E2 _]]].
  destruct pre; [|discriminate E2]. cbn [app] in E1.
  destruct (due_future _ _ _ _ S Du) as [_ Fu]. rewrite E1. exact Fu.
Qed.
