(* Proofs about Model/Version.v (C34).  Facts about the constants of Generated.v are proved by
   computation on the unfolded constants: when the regex shape, a separator, the label set or the
   decision list of detect_change_type changes in a way that matters, the fact — and with it the
   property — stops compiling. *)
From Coq Require Import List ZArith NArith Bool Lia ZifyBool Arith.
From Coq Require Decimal DecimalN DecimalPos.
Import ListNotations.
From WF Require Import Generated Model.Version.
Open Scope Z_scope.

(* ------------------------------------------------------------------------------------------ *)
(* decimal numerals                                                                            *)

Lemma uint_chars_digits : forall d, forallb is_digit (uint_chars d) = true.
Proof. induction d; cbn; auto. Qed.

Lemma chars_uint_chars : forall d, chars_uint (uint_chars d) = d.
Proof. induction d; cbn; congruence. Qed.

Lemma parse_render_nat : forall n, parse_nat (render_nat n) = n.
Proof.
  intro n. unfold parse_nat, render_nat. rewrite chars_uint_chars. apply DecimalN.Unsigned.of_to.
Qed.

Lemma render_nat_digits : forall n, forallb is_digit (render_nat n) = true.
Proof. intro n. apply uint_chars_digits. Qed.

Lemma render_nat_nonempty : forall n, render_nat n <> [].
Proof.
  intro n. unfold render_nat. destruct n as [|p]; [discriminate|].
  cbn [N.to_uint]. pose proof (DecimalPos.Unsigned.to_uint_nonnil p) as H.
  destruct (Pos.to_uint p); cbn; congruence.
Qed.

(* ------------------------------------------------------------------------------------------ *)
(* scanning                                                                                    *)

Definition no_digit_head (s : str) : Prop :=
  match s with [] => True | c :: _ => is_digit c = false end.

Lemma span_app : forall p d r,
  forallb p d = true -> match r with [] => True | c :: _ => p c = false end ->
  span p (d ++ r) = (d, r).
Proof.
  intros p d r. induction d as [|c d IH]; intros Hd Hr.
  - destruct r as [|c r']; [reflexivity|]. cbn [app span]. rewrite Hr. reflexivity.
  - cbn [forallb] in Hd. apply andb_prop in Hd. destruct Hd as [Hc Hd].
    cbn [app span]. rewrite Hc, (IH Hd Hr). reflexivity.
Qed.

Lemma digits1_render : forall n r, no_digit_head r ->
  digits1 (render_nat n ++ r) = Some (render_nat n, r).
Proof.
  intros n r Hr. unfold digits1. rewrite span_app; [|apply render_nat_digits | exact Hr].
  pose proof (render_nat_nonempty n). destruct (render_nat n); [congruence | reflexivity].
Qed.

(* the text of the components after the first: ".y.z" *)
Definition tail_text (sep : Z) (l : list N) : str := flat_map (fun n => sep :: render_nat n) l.

Lemma join_cons_tail : forall sep x l,
  join [sep] (map render_nat (x :: l)) = render_nat x ++ tail_text sep l.
Proof.
  intros sep x l. revert x. induction l as [|y l IH]; intro x.
  - cbn. rewrite app_nil_r. reflexivity.
  - change (join [sep] (map render_nat (x :: y :: l)))
      with (render_nat x ++ [sep] ++ join [sep] (map render_nat (y :: l))).
    rewrite IH. reflexivity.
Qed.

Lemma tail_text_head : forall sep l r, is_digit sep = false -> no_digit_head r ->
  no_digit_head (tail_text sep l ++ r).
Proof. intros sep [|y l] r Hs Hr; [exact Hr | exact Hs]. Qed.

Definition no_sep_digit_head (sep : Z) (s : str) : Prop :=
  match s with
  | [] => True
  | c :: t => c <> sep \/ match t with [] => True | d :: _ => is_digit d = false end
  end.

(* (?:\.\d+)* consumes exactly the remaining components *)
Lemma more_components_tail : forall sep l fuel acc r,
  is_digit sep = false -> no_digit_head r -> no_sep_digit_head sep r ->
  (length l <= fuel)%nat ->
  more_components fuel sep acc (tail_text sep l ++ r) = (acc ++ tail_text sep l, r).
Proof.
  intros sep l. induction l as [|y l IH]; intros fuel acc r Hs Hr Hr2 Hf.
  - cbn [tail_text flat_map app]. rewrite app_nil_r. destruct fuel as [|f]; [reflexivity|].
    cbn [more_components]. destruct r as [|c t]; [reflexivity|].
    destruct (c =? sep) eqn:E; [|reflexivity].
    assert (c = sep) by lia. subst c. cbn [no_sep_digit_head] in Hr2.
    destruct Hr2 as [Hr2|Hr2]; [congruence|].
    unfold digits1. destruct t as [|d t']; [reflexivity|]. cbn [span]. rewrite Hr2. reflexivity.
  - destruct fuel as [|f]; [cbn in Hf; lia|]. cbn [tail_text flat_map]. fold (tail_text sep l).
    rewrite <- app_assoc. cbn [app more_components]. rewrite Z.eqb_refl.
    rewrite digits1_render by (apply tail_text_head; assumption).
    rewrite IH; [|assumption..|cbn in Hf; lia]. rewrite <- !app_assoc. reflexivity.
Qed.

Lemma tail_text_length : forall sep l, (length l <= length (tail_text sep l))%nat.
Proof.
  intros sep l. induction l as [|y l IH]; [apply le_n|].
  cbn [tail_text flat_map length]. fold (tail_text sep l). rewrite app_length. cbn [length]. lia.
Qed.

(* (\.\d+){k} consumes exactly k remaining components *)
Lemma exact_components_tail : forall sep l acc r,
  is_digit sep = false -> no_digit_head r ->
  exact_components (length l) sep acc (tail_text sep l ++ r) = Some (acc ++ tail_text sep l, r).
Proof.
  intros sep l. induction l as [|y l IH]; intros acc r Hs Hr.
  - cbn. rewrite app_nil_r. reflexivity.
  - cbn [length exact_components tail_text flat_map]. fold (tail_text sep l).
    rewrite <- app_assoc. cbn [app]. rewrite Z.eqb_refl.
    rewrite digits1_render by (apply tail_text_head; assumption).
    rewrite IH by assumption. rewrite <- !app_assoc. reflexivity.
Qed.

(* ------------------------------------------------------------------------------------------ *)
(* facts about the generated constants                                                         *)

Lemma label_chars_are_label_chars : forall l, forallb is_label_char (label_chars l) = true.
Proof. intros []; reflexivity. Qed.

Lemma label_chars_nonempty : forall l, label_chars l <> [].
Proof. intros []; discriminate. Qed.

Lemma label_in_pep440_labels : forall l, existsb (str_eqb (label_chars l)) c34_pep440_labels = true.
Proof. intros []; reflexivity. Qed.

Lemma label_head : forall l r, no_digit_head (label_chars l ++ r) /\ no_sep_digit_head 46 (label_chars l ++ r).
Proof. intros [] r; split; cbn; auto; left; discriminate. Qed.

Lemma parse_label_chars : forall l r, parse_label (label_chars l ++ r) = Some (l, r).
Proof. intros [] r; reflexivity. Qed.

(* ------------------------------------------------------------------------------------------ *)
(* semver_to_pep440 on what pep440_to_semver produces                                          *)

Lemma p2s_text : forall x l p,
  p2s (mkV (x :: l) p) =
  render_nat x ++ tail_text 46 l ++
  match p with None => [] | Some (lb, n) => 45 :: label_chars lb ++ 46 :: render_nat n end.
Proof.
  intros x l p. unfold p2s. cbn [rel pre]. change c34_p2s_release_sep with [46].
  rewrite join_cons_tail. destruct p as [[lb n]|].
  - change c34_p2s_pre_sep with [45]. change c34_p2s_num_sep with [46].
    rewrite <- !app_assoc. reflexivity.
  - rewrite app_nil_r. reflexivity.
Qed.

Lemma render_text : forall x l p,
  render_pep440 (mkV (x :: l) p) =
  render_nat x ++ tail_text 46 l ++
  match p with None => [] | Some (lb, n) => label_chars lb ++ render_nat n end.
Proof.
  intros x l p. unfold render_pep440. cbn [rel pre]. rewrite join_cons_tail.
  rewrite <- app_assoc. reflexivity.
Qed.

Lemma release_part_scan : forall x l r,
  no_digit_head r -> no_sep_digit_head 46 r ->
  release_part (render_nat x ++ tail_text 46 l ++ r) = Some (render_nat x ++ tail_text 46 l, r).
Proof.
  intros x l r Hr Hr2. unfold release_part.
  rewrite digits1_render by (apply tail_text_head; [reflexivity | exact Hr]).
  change c34_semver_base_exact with (@None Z). cbv iota. change c34_semver_base_sep with 46.
  rewrite more_components_tail; [reflexivity | reflexivity | exact Hr | exact Hr2 |].
  rewrite app_length. pose proof (tail_text_length 46 l). lia.
Qed.

Theorem semver_to_pep440_of_p2s : forall v, rel v <> [] ->
  semver_to_pep440 (p2s v) = S2P_ok (render_pep440 v).
Proof.
  intros [[|x l] p] Hne; [cbn in Hne; congruence|]. clear Hne.
  rewrite p2s_text, render_text. unfold semver_to_pep440, match_semver. destruct p as [[lb n]|].
  - rewrite release_part_scan; [|reflexivity | left; discriminate].
    change (45 =? c34_semver_pre_sep) with true. cbv iota.
    rewrite span_app; [|apply label_chars_are_label_chars | reflexivity].
    pose proof (label_chars_nonempty lb) as Hl.
    destruct (label_chars lb) as [|c0 lc] eqn:El; [congruence|].
    change (46 =? c34_semver_num_sep) with true. cbv iota.
    rewrite <- (app_nil_r (render_nat n)) at 1. rewrite digits1_render by exact I.
    cbn [at_end fst snd]. rewrite <- El. rewrite label_in_pep440_labels.
    change c34_s2p_group_order with [1; 2; 3]. cbn [flat_map nth_group Z.eqb Pos.eqb].
    rewrite app_nil_r, <- !app_assoc. reflexivity.
  - rewrite app_nil_r. rewrite <- (app_nil_r (render_nat x ++ tail_text 46 l)) at 1.
    rewrite <- app_assoc. rewrite release_part_scan by exact I. reflexivity.
Qed.

(* ------------------------------------------------------------------------------------------ *)
(* Version(str(v)) = v on the modelled spelling                                                *)

Lemma parse_components_tail : forall l fuel acc r,
  no_digit_head r -> no_sep_digit_head 46 r -> (length l <= fuel)%nat ->
  parse_components fuel acc (tail_text 46 l ++ r) = (acc ++ l, r).
Proof.
  induction l as [|y l IH]; intros fuel acc r Hr Hr2 Hf.
  - cbn [tail_text flat_map app]. rewrite app_nil_r. destruct fuel as [|f]; [reflexivity|].
    cbn [parse_components]. destruct r as [|c t]; [reflexivity|].
    destruct (c =? 46) eqn:E; [|reflexivity].
    assert (c = 46) by lia. subst c. cbn [no_sep_digit_head] in Hr2.
    destruct Hr2 as [Hr2|Hr2]; [congruence|].
    unfold digits1. destruct t as [|d t']; [reflexivity|]. cbn [span]. rewrite Hr2. reflexivity.
  - destruct fuel as [|f]; [cbn in Hf; lia|]. cbn [tail_text flat_map]. fold (tail_text 46 l).
    rewrite <- app_assoc. cbn [app parse_components]. change (46 =? 46) with true. cbv iota.
    rewrite digits1_render by (apply tail_text_head; [reflexivity | exact Hr]).
    rewrite parse_render_nat. rewrite IH; [|assumption..|cbn in Hf; lia].
    rewrite <- app_assoc. reflexivity.
Qed.

Theorem parse_render_pep440 : forall v, rel v <> [] -> parse_pep440 (render_pep440 v) = Some v.
Proof.
  intros [[|x l] p] Hne; [cbn in Hne; congruence|]. clear Hne.
  rewrite render_text. unfold parse_pep440. destruct p as [[lb n]|].
  - destruct (label_head lb (render_nat n)) as [H1 H2].
    rewrite digits1_render by (apply tail_text_head; [reflexivity | exact H1]).
    rewrite parse_render_nat.
    rewrite parse_components_tail; [| exact H1 | exact H2 |
      rewrite app_length; pose proof (tail_text_length 46 l); lia].
    pose proof (label_chars_nonempty lb) as Hl.
    destruct (label_chars lb ++ render_nat n) as [|c0 rest] eqn:E;
      [destruct (label_chars lb); [congruence | discriminate]|].
    rewrite <- E. rewrite parse_label_chars.
    rewrite <- (app_nil_r (render_nat n)). rewrite digits1_render by exact I.
    rewrite parse_render_nat. reflexivity.
  - rewrite app_nil_r. rewrite <- (app_nil_r (tail_text 46 l)).
    rewrite digits1_render by (apply tail_text_head; [reflexivity | exact I]).
    rewrite parse_render_nat.
    rewrite parse_components_tail; [reflexivity | exact I | exact I |].
    rewrite app_length. pose proof (tail_text_length 46 l). lia.
Qed.

Lemma parse_components_acc : forall fuel acc s, exists more, fst (parse_components fuel acc s) = acc ++ more.
Proof.
  induction fuel as [|f IH]; intros acc s; [exists []; cbn; rewrite app_nil_r; reflexivity|].
  cbn [parse_components]. destruct s as [|c t]; [exists []; cbn; rewrite app_nil_r; reflexivity|].
  destruct (c =? 46); [|exists []; cbn; rewrite app_nil_r; reflexivity].
  destruct (digits1 t) as [[d r]|]; [|exists []; cbn; rewrite app_nil_r; reflexivity].
  destruct (IH (acc ++ [parse_nat d]) r) as [more Hm]. exists ([parse_nat d] ++ more).
  rewrite Hm, <- app_assoc. reflexivity.
Qed.

Lemma parse_pep440_rel_nonempty : forall s v, parse_pep440 s = Some v -> rel v <> [].
Proof.
  intros s v H. unfold parse_pep440 in H. destruct (digits1 s) as [[d0 r0]|]; [|discriminate].
  destruct (parse_components_acc (length r0) [parse_nat d0] r0) as [more Hm].
  destruct (parse_components (length r0) [parse_nat d0] r0) as [rl r1]. cbn [fst] in Hm. subst rl.
  destruct r1 as [|c r1'].
  - inversion H; subst. cbn. discriminate.
  - destruct (parse_label (c :: r1')) as [[l r2]|]; [|discriminate].
    destruct (digits1 r2) as [[num [|? ?]]|]; try discriminate. inversion H; subst. cbn. discriminate.
Qed.

(* ------------------------------------------------------------------------------------------ *)
(* the two round trips                                                                         *)

Theorem pep440_to_semver_of_render : forall v, rel v <> [] ->
  pep440_to_semver (render_pep440 v) = Some (p2s v).
Proof. intros v H. unfold pep440_to_semver. rewrite parse_render_pep440 by exact H. reflexivity. Qed.

(* PEP 440 -> semver -> PEP 440, from any string of the modelled spelling: the normalized original *)
Theorem roundtrip_from_pep440 : forall s v, parse_pep440 s = Some v ->
  exists sem, pep440_to_semver s = Some sem /\ semver_to_pep440 sem = S2P_ok (render_pep440 v).
Proof.
  intros s v H. exists (p2s v). split.
  - unfold pep440_to_semver. rewrite H. reflexivity.
  - apply semver_to_pep440_of_p2s. eapply parse_pep440_rel_nonempty. exact H.
Qed.

(* semver -> PEP 440 -> semver, from the semver form of any version *)
Theorem roundtrip_from_semver : forall v, rel v <> [] ->
  exists p, semver_to_pep440 (p2s v) = S2P_ok p /\ pep440_to_semver p = Some (p2s v).
Proof.
  intros v H. exists (render_pep440 v). split.
  - apply semver_to_pep440_of_p2s. exact H.
  - apply pep440_to_semver_of_render. exact H.
Qed.

(* both, from a version: each conversion is the inverse of the other on rendered versions *)
Theorem roundtrip_version : forall v, rel v <> [] ->
  semver_to_pep440 (p2s v) = S2P_ok (render_pep440 v) /\
  pep440_to_semver (render_pep440 v) = Some (p2s v) /\
  parse_pep440 (render_pep440 v) = Some v.
Proof.
  intros v H. split; [apply semver_to_pep440_of_p2s; exact H|].
  split; [apply pep440_to_semver_of_render; exact H | apply parse_render_pep440; exact H].
Qed.

(* ------------------------------------------------------------------------------------------ *)
(* detect_change_type                                                                          *)

Definition greater (v w : version) : Prop := vcmp v w = Gt.

Lemma run_steps_not_none : forall c p,
  run_steps c34_steps c p c34_default_class <> c34_none_class.
Proof.
  intros c p. unfold c34_steps, c34_default_class, c34_none_class. cbn [run_steps].
  repeat match goal with |- context [if ?b then _ else _] => destruct b end; discriminate.
Qed.

Lemma none_op_is_le : forall c,
  op_holds c34_none_op c = match c with Gt => false | _ => true end.
Proof. intros []; reflexivity. Qed.

(* "none" exactly when the new version is not greater *)
Theorem detect_none_iff : forall cur p,
  detect_change_type cur (Some p) = 0 <-> ~ greater cur p.
Proof.
  intros cur p. unfold detect_change_type, greater. rewrite none_op_is_le.
  change c34_none_class with 0. destruct (vcmp cur p) eqn:E.
  - split; [intros _ H; discriminate | reflexivity].
  - split; [intros _ H; discriminate | reflexivity].
  - split; [intro H; exfalso; apply (run_steps_not_none _ _ H) | intro H; exfalso; apply H; reflexivity].
Qed.

(* the three components the tool looks at *)
Definition major (v : version) : N := comp (padded (rel v)) 0.
Definition minor (v : version) : N := comp (padded (rel v)) 1.
Definition patch (v : version) : N := comp (padded (rel v)) 2.

Ltac cmp_cases :=
  repeat match goal with
         | H : context [N.compare ?x ?y] |- _ => destruct (N.compare_spec x y)
         | |- context [N.compare ?x ?y] => destruct (N.compare_spec x y)
         | H : context [N.eqb 0 ?y] |- _ => destruct (N.eqb_spec 0 y)
         | H : context [forallb ?f ?l] |- _ => destruct (forallb f l)
         end.

(* a release that is not smaller is lexicographically not smaller on (major, minor, patch) *)
Lemma cmp_rel_lex3 : forall a b, cmp_rel a b <> Lt ->
  let c := padded a in let q := padded b in
  (comp q 0 < comp c 0)%N \/
  (comp c 0 = comp q 0 /\ ((comp q 1 < comp c 1)%N \/ (comp c 1 = comp q 1 /\ (comp q 2 <= comp c 2)%N))).
Proof.
  intros a b H. unfold padded, comp.
  change (Z.to_nat c34_width) with 3%nat. change (map Z.to_N c34_pad) with [0; 0; 0]%N.
  change (Z.to_nat 0) with 0%nat. change (Z.to_nat 1) with 1%nat. change (Z.to_nat 2) with 2%nat.
  destruct a as [|x0 [|x1 [|x2 a']]]; destruct b as [|y0 [|y1 [|y2 b']]];
    cbn [cmp_rel forallb app firstn nth andb] in *; cmp_cases; cbn [andb] in *; subst;
    try congruence; try lia.
Qed.

Lemma vcmp_gt_rel : forall v w, vcmp v w = Gt -> cmp_rel (rel v) (rel w) <> Lt.
Proof. intros v w H E. unfold vcmp in H. rewrite E in H. discriminate. Qed.

Lemma gt_op : forall c, op_holds 2 c = match c with Gt => true | _ => false end.
Proof. intros []; reflexivity. Qed.

(* when the new version is greater: the answer names the most significant of major/minor/patch
   that differs, and that component grew; when none of the three differs (only a further
   component or the pre-release grew — a case the property's text does not name) it is "minor" *)
Theorem detect_names_most_significant : forall cur p, greater cur p ->
  let r := detect_change_type cur (Some p) in
  (major cur <> major p -> (major p < major cur)%N /\ r = 3) /\
  (major cur = major p -> minor cur <> minor p -> (minor p < minor cur)%N /\ r = 2) /\
  (major cur = major p -> minor cur = minor p -> patch cur <> patch p -> (patch p < patch cur)%N /\ r = 1) /\
  (major cur = major p -> minor cur = minor p -> patch cur = patch p -> r = 2).
Proof.
  intros cur p Hg r. subst r. pose proof (cmp_rel_lex3 _ _ (vcmp_gt_rel _ _ Hg)) as L. cbn zeta in L.
  unfold detect_change_type, major, minor, patch. unfold greater in Hg. rewrite none_op_is_le, Hg.
  unfold c34_steps, c34_default_class. cbn [run_steps]. rewrite !gt_op.
  set (c0 := comp (padded (rel cur)) 0) in *. set (q0 := comp (padded (rel p)) 0) in *.
  set (c1 := comp (padded (rel cur)) 1) in *. set (q1 := comp (padded (rel p)) 1) in *.
  set (c2 := comp (padded (rel cur)) 2) in *. set (q2 := comp (padded (rel p)) 2) in *.
  destruct (N.compare_spec c0 q0); destruct (N.compare_spec c1 q1); destruct (N.compare_spec c2 q2);
    repeat split; intros; try lia.
Qed.

(* no previous version (None or ""): "major" *)
Theorem detect_first_release : forall cur, detect_change_type cur None = 3.
Proof. reflexivity. Qed.

(* the answer is always one of the four classes *)
Theorem detect_range : forall cur prev, 0 <= detect_change_type cur prev <= 3.
Proof.
  intros cur [p|]; [|cbn; unfold c34_first_release_class; lia].
  unfold detect_change_type. destruct (op_holds c34_none_op (vcmp cur p)); [unfold c34_none_class; lia|].
  unfold c34_steps, c34_default_class. cbn [run_steps].
  repeat match goal with |- context [if ?b then _ else _] => destruct b end; lia.
Qed.

(* ---- the order model is an order: antisymmetric and reflexive (sanity of "not greater") ---- *)
Lemma cmp_rel_antisym : forall a b, cmp_rel b a = CompOpp (cmp_rel a b).
Proof.
  induction a as [|x a IH]; intros [|y b]; cbn [cmp_rel forallb].
  - reflexivity.
  - destruct (N.eqb_spec 0 y); cbn [andb]; [destruct (forallb (N.eqb 0) b)|]; reflexivity.
  - destruct (N.eqb_spec 0 x); cbn [andb]; [destruct (forallb (N.eqb 0) a)|]; reflexivity.
  - rewrite (N.compare_antisym x y). destruct (N.compare x y); cbn [CompOpp]; [apply IH | reflexivity..].
Qed.

Lemma cmp_pre_antisym : forall p q, cmp_pre q p = CompOpp (cmp_pre p q).
Proof.
  intros [[l n]|] [[m k]|]; cbn [cmp_pre]; try reflexivity.
  rewrite (N.compare_antisym (rank l) (rank m)).
  destruct (N.compare (rank l) (rank m)); cbn [CompOpp]; [apply N.compare_antisym | reflexivity..].
Qed.

Theorem vcmp_antisym : forall v w, vcmp w v = CompOpp (vcmp v w).
Proof.
  intros v w. unfold vcmp. rewrite (cmp_rel_antisym (rel v) (rel w)).
  destruct (cmp_rel (rel v) (rel w)); cbn [CompOpp]; [apply cmp_pre_antisym | reflexivity..].
Qed.

Theorem not_greater_iff : forall v w, ~ greater v w <-> (vcmp v w = Lt \/ vcmp v w = Eq).
Proof. intros v w. unfold greater. destruct (vcmp v w); split; intro H; try tauto; try congruence; destruct H; congruence. Qed.
