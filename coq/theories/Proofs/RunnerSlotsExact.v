(* C01 / C03 at the runner level, the converse of Proofs/RunnerSlots.v: no worker slot leaks.  For every schedule, at
   every point where the live run loop blocks, the slots recorded in the steps' in_progress lists are EXACTLY the
   in-flight invocations (workers to start, started, finished-not-harvested, result tick buffered), as multisets: a
   slot is occupied in the engine state only while a worker really works on it (or its result is on its way), so a
   step that "runs at its worker limit" really has that many invocations executing. *)
From Coq Require Import List ZArith Bool PeanoNat Lia.
Import ListNotations.
From WF Require Import Model.Engine Model.Runner Proofs.EngineCap Proofs.EngineSlots Proofs.EngineTelemetry Proofs.EngineRuns
  Proofs.RunnerSlots Proofs.RunnerStall.
Open Scope Z_scope.

(* ---------- the reducer keeps the configuration; a StopEvent result ends the run ---------- *)
Lemma one_result_cfg P step tev dc now a r a' :
  one_result P step tev dc now a r = Ok a' -> cfg (k_state a') = cfg (k_state a).
Proof.
  intros H. unfold one_result in H.
  break_match H; try discriminate; inversion H; subst; clear H; reflexivity.
Qed.

Lemma one_result_exit_mono P step tev dc now a r a' :
  one_result P step tev dc now a r = Ok a' -> existsb is_exit (k_cmds a) = true -> existsb is_exit (k_cmds a') = true.
Proof.
  intros H E. unfold one_result in H.
  break_match H; try discriminate; inversion H; subst; clear H; cbn [k_cmds]; rewrite ?existsb_app, ?E; reflexivity.
Qed.

Lemma results_loop_cfg_exit P step tev dc now : forall rs a a',
  results_loop P step tev dc now a rs = Ok a' ->
  cfg (k_state a') = cfg (k_state a) /\
  (existsb is_exit (k_cmds a) = true \/ has_stop (cfg (k_state a)) rs = true -> existsb is_exit (k_cmds a') = true).
Proof.
  induction rs as [|r t IH]; intros a a' H; cbn [results_loop] in H.
  - inversion H; subst. split; [reflexivity|]. intros [E|E]; [exact E|discriminate E].
  - destruct (one_result P step tev dc now a r) as [a1|] eqn:O; [|discriminate].
    destruct (IH _ _ H) as [C1 X1]. pose proof (one_result_cfg _ _ _ _ _ _ _ _ O) as C0.
    split; [congruence|]. intros [E|E].
    + apply X1. left. exact (one_result_exit_mono _ _ _ _ _ _ _ _ O E).
    + cbn [has_stop existsb] in E. apply orb_true_iff in E. destruct E as [E|E].
      * apply X1. left. unfold one_result in O. destruct r as [o| | | | |]; try discriminate E. destruct o as [e| |]; try discriminate E.
        rewrite E in O. inversion O; subst. cbn [k_cmds]. rewrite existsb_app. cbn. apply orb_true_r.
      * apply X1. right. rewrite C0. exact E.
Qed.

Lemma reduce_cfg P t s now s' cs : reduce P t s now = Ok (s', cs) -> cfg s' = cfg s.
Proof.
  intros H. unfold reduce in H. destruct t.
  - destruct (process_add _ _ _ _) as [[s1 c1]|] eqn:E; [|discriminate]. inversion H; subst.
    unfold process_add in E. destruct (add_waiters _ _ _ _) as [[[ws1 cs1] hits]|]; [|discriminate].
    destruct (add_routes _ _ _ _ _) as [[[ws2 cs2] routed]|]; [|discriminate].
    break_match E; inversion E; subst; reflexivity.
  - destruct (process_step _ _ _ _ _ _ _) as [[s1 c1]|] eqn:E; [|discriminate]. inversion H; subst.
    unfold process_step in E. destruct (zlookup step (workers s)) as [w|]; [|discriminate].
    destruct (find_ip wid (inprogress w)) as [this|]; [|discriminate].
    destruct (results_loop _ _ _ _ _ _ _) as [a|] eqn:RL; [|discriminate].
    destruct (results_loop_cfg_exit _ _ _ _ _ _ _ _ RL) as [C _]. cbn [k_state] in C.
    destruct (k_keep a); destruct (existsb is_exit (k_cmds a));
      try (inversion E; subst; exact C);
      (destruct (drain _ _ _ _) as [[w3 c3]|]; [|discriminate]; inversion E; subst; exact C).
  - inversion H; subst; reflexivity.
  - inversion H; subst; reflexivity.
  - inversion H; subst; reflexivity.
  - destruct (process_waiter_timeout _ _ _ _) as [[s1 c1]|] eqn:E; [|discriminate]. inversion H; subst.
    unfold process_waiter_timeout in E. break_match E; inversion E; subst; reflexivity.
  - inversion H; subst; reflexivity.
  - inversion H; subst; reflexivity.
Qed.

Lemma stop_tick_exits P n k e rs s now s' cs :
  reduce P (TStep n k e rs) s now = Ok (s', cs) -> has_stop (cfg s) rs = true -> existsb is_exit cs = true.
Proof.
  intros H St. unfold reduce in H.
  destruct (process_step _ _ _ _ _ _ _) as [[s1 c1]|] eqn:E; [|discriminate]. inversion H; subst; clear H.
  assert (existsb is_exit c1 = true) as X.
  { unfold process_step in E. destruct (zlookup n (workers s)) as [w|]; [|discriminate].
    destruct (find_ip k (inprogress w)) as [this|]; [|discriminate].
    destruct (results_loop _ _ _ _ _ _ _) as [a|] eqn:RL; [|discriminate].
    destruct (results_loop_cfg_exit _ _ _ _ _ _ _ _ RL) as [_ X]. cbn [k_state k_cmds] in X.
    rewrite (X (or_intror St)) in E.
    destruct (k_keep a); inversion E; subst; [apply X; right; exact St|].
    cbn [existsb is_exit]. apply X. right. exact St. }
  destruct (check_idle s'); [rewrite existsb_app, X; reflexivity|exact X].
Qed.

(* ---------- the slots of a state ---------- *)
Definition slots_of_ws (ws : list (Z * wstate)) : list (Z * nat) :=
  flat_map (fun p => map (fun k => (fst p, k)) (wids (snd p))) ws.
Definition slots_of (s : state) : list (Z * nat) := slots_of_ws (workers s).
Definition cn (j : nat) (l : list nat) : nat := count_occ Nat.eq_dec l j.

Lemma cn_app j a b : cn j (a ++ b) = (cn j a + cn j b)%nat.
Proof. apply count_occ_app. Qed.

Lemma cnt_pairs n j k l : cnt (n, j) (map (fun x => (k, x)) l) = if Z.eqb k n then cn j l else 0%nat.
Proof.
  induction l as [|h t IH]; [destruct (Z.eqb k n); reflexivity|].
  cbn [map]. rewrite (cnt_cons (n, j) (k, h)), IH, cnt_single. unfold cn. cbn [count_occ].
  destruct (Z.eqb_spec k n) as [->|Hne].
  - destruct (key_dec (n, h) (n, j)) as [E|E]; destruct (Nat.eq_dec h j) as [F|F]; try reflexivity.
    + inversion E; contradiction.
    + subst. contradiction E. reflexivity.
  - destruct (key_dec (k, h) (n, j)) as [E|E]; [inversion E; contradiction|reflexivity].
Qed.

Lemma cnt_slots_none n j ws : ~ In n (map fst ws) -> cnt (n, j) (slots_of_ws ws) = 0%nat.
Proof.
  induction ws as [|[k v] t IH]; intros H; [reflexivity|]. cbn [slots_of_ws flat_map fst snd]. fold (slots_of_ws t).
  rewrite cnt_app, cnt_pairs, IH by (intros X; apply H; right; exact X).
  destruct (Z.eqb_spec k n) as [->|_]; [exfalso; apply H; left; reflexivity|reflexivity].
Qed.

Lemma cnt_slots n j ws : NoDup (map fst ws) ->
  cnt (n, j) (slots_of_ws ws) = match zlookup n ws with Some w => cn j (wids w) | None => 0%nat end.
Proof.
  induction ws as [|[k v] t IH]; intros ND; [reflexivity|]. inversion ND as [|? ? Hn ND']; subst.
  cbn [slots_of_ws flat_map fst snd zlookup]. fold (slots_of_ws t). rewrite cnt_app, cnt_pairs.
  destruct (Z.eqb_spec n k) as [->|Hne].
  - rewrite Z.eqb_refl, (cnt_slots_none k j t Hn). lia.
  - destruct (Z.eqb_spec k n) as [X|_]; [congruence|]. rewrite (IH ND'). reflexivity.
Qed.

Lemma cnt_runs n j cs : cnt (n, j) (map kp (runs_list cs)) = cn j (runs_of n cs).
Proof.
  induction cs as [|c t IH]; [reflexivity|]. destruct c; try exact IH.
  cbn [runs_list runs_of map kp fst snd]. rewrite (cnt_cons (n, j) (step, wid)), IH, cnt_single.
  destruct (Z.eqb_spec step n) as [->|Hne].
  - unfold cn. cbn [count_occ]. destruct (key_dec (n, wid) (n, j)) as [E|E]; destruct (Nat.eq_dec wid j) as [F|F]; try reflexivity.
    + inversion E; contradiction.
    + subst. contradiction E. reflexivity.
  - destruct (key_dec (step, wid) (n, j)) as [E|E]; [inversion E; contradiction|reflexivity].
Qed.

Lemma cn_remove j k l : In k l -> (cn j (remove_nat k l) + (if Nat.eq_dec k j then 1 else 0) = cn j l)%nat.
Proof.
  induction l as [|h t IH]; intros H; [destruct H|]. cbn [remove_nat]. unfold cn in *. cbn [count_occ].
  destruct (Nat.eqb_spec h k) as [->|Hn].
  - destruct (Nat.eq_dec k j); lia.
  - destruct H as [H|H]; [congruence|]. specialize (IH H). cbn [count_occ]. destruct (Nat.eq_dec h j); lia.
Qed.

Lemma cnt_tick_key n j t : cnt (n, j) (tick_key t) = match t with TStep s w _ _ => if key_dec (s, w) (n, j) then 1%nat else 0%nat | _ => 0%nat end.
Proof. destruct t; reflexivity. Qed.

(* ---------- one tick: exact accounting of slots against started workers ---------- *)
Lemma tick_exact P t s now s' cs :
  Keys_ok s -> Inv_state s -> tick_ok t -> reduce P t s now = Ok (s', cs) ->
  forall x, (cnt x (slots_of s') + cnt x (tick_key t) = cnt x (slots_of s) + cnt x (map kp (runs_list cs)))%nat.
Proof.
  intros ND Hi Tok H [n j].
  pose proof (reduce_keys _ _ _ _ _ _ ND Hi H) as ND'.
  pose proof (Forall2_tel_keys _ _ _ (reduce_tel _ _ _ _ _ _ ND Hi H)) as Keys.
  unfold slots_of. rewrite (cnt_slots n j _ ND), (cnt_slots n j _ ND'), cnt_runs, cnt_tick_key.
  destruct (zlookup n (workers s)) as [w|] eqn:L.
  - destruct (reduce_runs_shape _ _ _ _ _ _ _ _ ND Hi H L) as [w' [reruns [fresh [L' [R [Fa [Sh [Len [Rem Own]]]]]]]]].
    rewrite L', R, cn_app.
    assert (forall k, own_slot t n k -> t = t /\ exists e rs, t = TStep n k e rs) as _ by (intros; split; [reflexivity|assumption]).
    destruct reruns as [|r0 rr].
    + (* no re-run *)
      destruct t; try (destruct Sh as [W|[k [[e0 [rs0 X]] _]]]; [rewrite W, cn_app; unfold cn; cbn; lia|discriminate X]).
      destruct (Z.eq_dec step n) as [->|Hne].
      * destruct (Rem wid (ex_intro _ e (ex_intro _ rs eq_refl)) eq_refl) as [Hin W]. rewrite W, cn_app.
        pose proof (cn_remove j wid (wids w) Hin) as X.
        destruct (key_dec (n, wid) (n, j)) as [E|E]; destruct (Nat.eq_dec wid j) as [F|F]; try (unfold cn in *; cbn; lia).
        -- inversion E; contradiction.
        -- subst. contradiction E. reflexivity.
      * destruct Sh as [W|[k [[e0 [rs0 X]] _]]]; [|inversion X; contradiction].
        rewrite W, cn_app. destruct (key_dec (step, wid) (n, j)) as [E|E]; [inversion E; contradiction|]. unfold cn; cbn; lia.
    + (* a re-run of the tick's own slot: exactly one, the slot stays *)
      destruct (Own ltac:(discriminate)) as [k Ho].
      destruct (Fa r0 (or_introl eq_refl)) as [[e1 [rs1 X1]] [Hin W]].
      destruct Ho as [e0 [rs0 X0]]. subst t. inversion X1; subst. cbn [tick_ok] in Tok. unfold results_ok in Tok.
      cbn [length] in Len. assert (rr = []) as -> by (destruct rr; [reflexivity|cbn in Len; lia]).
      rewrite W, cn_app. unfold cn. cbn [count_occ].
      destruct (key_dec (n, r0) (n, j)) as [E|E]; destruct (Nat.eq_dec r0 j) as [F|F]; try lia.
      * inversion E; contradiction.
      * subst. contradiction E. reflexivity.
  - (* a step the state does not have *)
    assert (zlookup n (workers s') = None) as L'.
    { destruct (zlookup n (workers s')) as [w'|] eqn:X; [|reflexivity]. apply zlookup_in in X. rewrite Keys in X.
      destruct (in_keys_zlookup _ _ X) as [v Hv]. congruence. }
    rewrite L'.
    assert (runs_of n cs = []) as Rn.
    { destruct (runs_of n cs) as [|k0 r0] eqn:E; [reflexivity|]. exfalso.
      destruct (runs_of_in_cmd n k0 cs) as [e0 He]; [rewrite E; left; reflexivity|].
      destruct (reduce_runs_in_progress _ _ _ _ _ _ _ _ _ ND H He) as [w0 [I _]].
      apply (in_map fst) in I. cbn in I. rewrite Keys in I. destruct (in_keys_zlookup _ _ I) as [v Hv]. congruence. }
    rewrite Rn. destruct t; try reflexivity.
    destruct (key_dec (step, wid) (n, j)) as [E|E]; [|reflexivity]. inversion E; subst. exfalso.
    unfold reduce in H. destruct (process_step _ _ _ _ _ _ _) as [[s1 c1]|] eqn:PS; [|discriminate].
    unfold process_step in PS. rewrite L in PS. discriminate.
Qed.

(* ---------- the run loop ---------- *)
Definition Exact (r : rstate) : Prop := forall x, cnt x (held r) = cnt x (slots_of (st r)).
Definition stop_pending (r : rstate) : Prop :=
  exists n k e rs, In (TStep n k e rs) (tbuf r) /\ has_stop (cfg (st r)) rs = true.
Record XInv (r : rstate) : Prop := { xi_slots : Slots_ok r ; xi_exact : stop_pending r \/ Exact r }.

Lemma XInv_same r r2 :
  XInv r -> Slots_ok r2 -> st r2 = st r -> (forall x, cnt x (held r2) = cnt x (held r)) ->
  (forall t, In t (tbuf r) -> In t (tbuf r2)) -> XInv r2.
Proof.
  intros [S X] S2 E C T. constructor; [exact S2|]. destruct X as [[n [k [e [rs [I H]]]]]|X].
  - left. exists n, k, e, rs. rewrite E. split; [apply T; exact I|exact H].
  - right. intros x. rewrite C, E. apply X.
Qed.

Lemma tick_xinv P r t rest s' cs r1 :
  XInv r -> tbuf r = t :: rest -> reduce P t (st r) (clock r) = Ok (s', cs) ->
  st r1 = s' -> tbuf r1 = rest -> pending r1 = pending r -> runningw r1 = runningw r -> donew r1 = donew r ->
  mailbox r1 = mailbox r -> wakeups r1 = wakeups r ->
  Runner.outcome (fold_left do_command cs r1) = ORunning -> XInv (fold_left do_command cs r1).
Proof.
  intros [S X] ET H E1 E2 E3 E4 E5 E6 E7 Out.
  pose proof (tick_slots P r t rest s' cs r1 S ET H E1 E2 E3 E4 E5 E6 E7 Out) as S'.
  constructor; [exact S'|].
  destruct (do_commands_live cs r1 Out) as [_ L]. cbn zeta in L.
  destruct L as [Pn [Rn [Dn' [Sn [Mn [[more [Tn Am]] Wn]]]]]].
  destruct (do_commands_no_exit _ _ Out) as [NE _].
  pose proof (so_tbuf _ S) as Tb. rewrite ET in Tb. inversion Tb as [|? ? Tok Tb']; subst.
  destruct X as [[n [k [e [rs [I St]]]]]|X].
  - rewrite ET in I. destruct I as [I|I].
    + subst t. pose proof (stop_tick_exits _ _ _ _ _ _ _ _ _ H St) as X. congruence.
    + left. exists n, k, e, rs. rewrite Tn, Sn, (reduce_cfg _ _ _ _ _ _ H). split; [apply in_app_iff; left; exact I|exact St].
  - right. intros x. destruct (appended_split _ Am) as [Am1 _].
    pose proof (tick_exact P t (st r) (clock r) (st r1) cs (so_keys _ S) (so_cap _ S) Tok H x) as TE.
    specialize (X x). rewrite held_cnt in *. rewrite Pn, Rn, Dn', Tn, Sn, E3, E4, E5, bufkeys_app, (bufkeys_nostep _ Am1), map_app, !cnt_app.
    rewrite ET in X. cbn [bufkeys flat_map] in X. fold (bufkeys (tbuf r1)) in X. rewrite cnt_app in X.
    rewrite cnt_nil. lia.
Qed.

Lemma drain_xinv P : forall f r, XInv r -> Runner.outcome (drain_ticks P r f) = ORunning -> XInv (drain_ticks P r f).
Proof.
  induction f as [|f IH]; intros r S; cbn [drain_ticks].
  - destruct (Runner.outcome r); intros H; try exact S. destruct (tbuf r); [exact S|discriminate H].
  - destruct (Runner.outcome r) eqn:Or; intros H; try exact S. destruct (tbuf r) as [|t rest] eqn:ET; [exact S|].
    match type of H with context [if ?b then _ else _] => destruct b eqn:Idle end.
    + apply IH; [|exact H]. destruct t; try discriminate Idle.
      pose proof (drain_slots P 1 r (xi_slots _ S)) as D1.
      assert (Slots_ok (upd r (st r) rest (wakeups r) (wseq r) false (pending r) (published r) ORunning)) as S2.
      { eapply Slots_sub; [exact (xi_slots _ S)|reflexivity| | | | |]; cbn [upd tbuf donew mailbox wakeups].
        - intros x. rewrite !held_cnt. cbn [upd tbuf donew pending runningw]. rewrite ET. unfold bufkeys. cbn [flat_map tick_key app]. lia.
        - pose proof (so_tbuf _ (xi_slots _ S)) as T. rewrite ET in T. inversion T; assumption.
        - exact (so_done _ (xi_slots _ S)).
        - exact (so_mail _ (xi_slots _ S)).
        - exact (so_wake _ (xi_slots _ S)). }
      destruct S as [S X]. constructor; [exact S2|]. destruct X as [[n [k [e [rs [I St]]]]]|X].
      * left. exists n, k, e, rs. cbn [upd tbuf st]. rewrite ET in I. destruct I as [I|I]; [discriminate I|]. split; assumption.
      * right. intros x. specialize (X x). rewrite held_cnt in *. cbn [upd tbuf donew pending runningw st]. rewrite ET in X.
        unfold bufkeys in *. cbn [flat_map tick_key app] in X. exact X.
    + cbn [st clock upd] in *.
      destruct (reduce P t (st r) (clock r)) as [[s' cs]|c] eqn:R; [|discriminate H].
      apply IH; [|exact H]. apply drain_outcome in H.
      eapply (tick_xinv P r t rest s' cs); try eassumption;
        unfold log_idle; destruct (publishes_idle cs); reflexivity.
Qed.

(* ---------- waiting ---------- *)
Local Arguments skipn : simpl never.
Local Arguments firstn : simpl never.

Lemma wait_xinv r c r2 : XInv r -> wait_step r c = Some r2 -> XInv r2.
Proof.
  intros X H. pose proof (wait_slots r c r2 (xi_slots _ X) H) as S2. unfold wait_step in H.
  destruct (nth_error (donew r) c) as [[[[s w] e] rs]|] eqn:N.
  - destruct (has_stop (cfg (st r)) rs) eqn:St; injection H as <-.
    + (* the StopEvent short-cut: the other workers are cancelled; the run ends when the tick is processed *)
      constructor; [exact S2|]. left. exists s, w, e, rs. cbn [log_fire set_wait tbuf st]. split; [apply in_app_iff; right; left; reflexivity|exact St].
    + eapply XInv_same; [exact X|exact S2|reflexivity| |].
      * intros x. pose proof (nth_split_cnt x _ _ _ N) as Sp. rewrite !held_cnt. cbn [log_fire set_wait pending runningw donew tbuf map].
        rewrite bufkeys_app, !map_app, !cnt_app. unfold bufkeys at 2. cbn [flat_map tick_key app].
        rewrite map_app, cnt_app in Sp. change (kd (s, w, e, rs)) with ((s, w) : Z * nat) in Sp. rewrite ?cnt_nil. lia.
      * intros t I. cbn [log_fire set_wait tbuf]. apply in_app_iff. left. exact I.
  - destruct (donew r) as [|d0 dr] eqn:Ed; [|discriminate H].
    destruct (mailbox r) as [|t mb] eqn:Em.
    + destruct (due (clock r) (wakeups r)) as [d rest] eqn:Du.
      pose proof (due_nostep _ _ _ _ (so_wake _ (xi_slots _ X)) Du) as [Nd _].
      destruct d as [|d1 dd].
      * destruct (pending r) eqn:Ep; [discriminate H|]. injection H as <-.
        eapply XInv_same; [exact X|exact S2|reflexivity| |].
        -- intros x. rewrite !held_cnt. cbn [log_fire set_wait pending runningw donew tbuf map]. rewrite Ed, Ep, map_app, !cnt_app. cbn [map]. rewrite ?cnt_nil. lia.
        -- intros t I. exact I.
      * injection H as <-.
        eapply XInv_same; [exact X|exact S2|reflexivity| |].
        -- intros x. rewrite !held_cnt. cbn [log_fire set_wait pending runningw donew tbuf map].
           rewrite Ed, bufkeys_app, (bufkeys_nostep _ Nd), map_app, !cnt_app. cbn [map]. rewrite ?cnt_nil. lia.
        -- intros t I. cbn [log_fire set_wait tbuf]. apply in_app_iff. left. exact I.
    + injection H as <-. pose proof (so_mail _ (xi_slots _ X)) as M. rewrite Em in M. inversion M; subst.
      eapply XInv_same; [exact X|exact S2|reflexivity| |].
      * intros x. rewrite !held_cnt. cbn [log_fire set_wait pending runningw donew tbuf map].
        rewrite Ed, bufkeys_app, (bufkeys_nostep [t]) by (constructor; [assumption|constructor]).
        rewrite map_app, !cnt_app. cbn [map]. rewrite ?cnt_nil. lia.
      * intros t0 I. cbn [log_fire set_wait tbuf]. apply in_app_iff. left. exact I.
Qed.

Lemma rub_xinv P : forall f r, XInv r -> Runner.outcome (run_until_blocked P r f) = ORunning -> XInv (run_until_blocked P r f).
Proof.
  induction f as [|f IH]; intros r S; cbn [run_until_blocked].
  - destruct (Runner.outcome r) eqn:O; intros H; try exact S. cbn in H. discriminate H.
  - generalize (drain_xinv P tick_fuel r S). generalize (drain_ticks P r tick_fuel). intros r1 S1.
    destruct (Runner.outcome r1) eqn:O1; intros H; try (rewrite O1 in H; discriminate H).
    destruct (wait_step r1 0) as [r2|] eqn:Wt; [|exact (S1 eq_refl)].
    apply IH; [eapply wait_xinv; [exact (S1 eq_refl)|exact Wt]|exact H].
Qed.

Definition XGood (r : rstate) : Prop := Runner.outcome r = ORunning -> XInv r.

Lemma act_xgood P r a : action_ok a -> XGood r -> XGood (act P r a).
Proof.
  intros Ok G. unfold act in *. destruct (Runner.outcome r) eqn:O; try exact G.
  specialize (G O). intros H. apply rub_xinv; [|exact H].
  destruct a as [s w sends rs|t|dt]; cbn [action_ok] in Ok.
  - destruct (take_worker s w (runningw r)) as [[e run']|] eqn:Tk; [|exact G].
    destruct Ok as [Sd Rk].
    assert (Slots_ok {| st := st r; tbuf := tbuf r; wakeups := wakeups r; wseq := wseq r; idle_pending := idle_pending r;
                        mailbox := mailbox r ++ sends; pending := pending r; runningw := run'; donew := donew r ++ [(s, w, e, rs)];
                        published := published r; ticklog := ticklog r; outcome := ORunning; clock := clock r; tlog := tlog r;
                        idlelog := idlelog r; envlog := envlog r ++ sends ; firelog := firelog r |}) as S2.
    { eapply Slots_sub; [exact (xi_slots _ G)|reflexivity| | | | |]; cbn [tbuf donew mailbox wakeups].
      + intros x. rewrite !held_cnt. cbn [pending runningw donew tbuf]. rewrite map_app, cnt_app.
        rewrite (take_worker_cnt x _ _ _ _ _ Tk). cbn [map]. unfold kd at 2. unfold kp at 3. cbn [fst snd]. lia.
      + exact (so_tbuf _ (xi_slots _ G)).
      + apply Forall_app. split; [exact (so_done _ (xi_slots _ G))|constructor; [exact Rk|constructor]].
      + apply Forall_app. split; [exact (so_mail _ (xi_slots _ G))|]. rewrite forallb_forall in Sd. apply Forall_forall.
        intros t Ht. apply is_add_nostep. apply Sd. exact Ht.
      + exact (so_wake _ (xi_slots _ G)). }
    eapply XInv_same; [exact G|exact S2|reflexivity| |].
    + intros x. rewrite !held_cnt. cbn [pending runningw donew tbuf]. rewrite map_app, cnt_app.
      rewrite (take_worker_cnt x _ _ _ _ _ Tk). cbn [map]. unfold kd at 2. unfold kp at 3. cbn [fst snd]. rewrite ?cnt_nil. lia.
    + intros t I. exact I.
  - assert (Slots_ok {| st := st r; tbuf := tbuf r; wakeups := wakeups r; wseq := wseq r; idle_pending := idle_pending r;
                        mailbox := mailbox r ++ [t]; pending := pending r; runningw := runningw r; donew := donew r;
                        published := published r; ticklog := ticklog r; outcome := ORunning; clock := clock r; tlog := tlog r;
                        idlelog := idlelog r; envlog := envlog r ++ [t] ; firelog := firelog r |}) as S2.
    { eapply Slots_sub; [exact (xi_slots _ G)|reflexivity| | | | |]; cbn [tbuf donew mailbox wakeups].
      + intros x. rewrite !held_cnt. cbn [pending runningw donew tbuf]. lia.
      + exact (so_tbuf _ (xi_slots _ G)).
      + exact (so_done _ (xi_slots _ G)).
      + apply Forall_app. split; [exact (so_mail _ (xi_slots _ G))|constructor; [apply is_add_nostep; exact Ok|constructor]].
      + exact (so_wake _ (xi_slots _ G)). }
    eapply XInv_same; [exact G|exact S2|reflexivity| |]; [intros x; rewrite !held_cnt; reflexivity|intros t0 I; exact I].
  - assert (Slots_ok {| st := st r; tbuf := tbuf r; wakeups := wakeups r; wseq := wseq r; idle_pending := idle_pending r;
                        mailbox := mailbox r; pending := pending r; runningw := runningw r; donew := donew r;
                        published := published r; ticklog := ticklog r; outcome := ORunning; clock := clock r + dt; tlog := tlog r;
                        idlelog := idlelog r; envlog := envlog r ; firelog := firelog r |}) as S2.
    { eapply Slots_sub; [exact (xi_slots _ G)|reflexivity| | | | |]; cbn [tbuf donew mailbox wakeups].
      + intros x. rewrite !held_cnt. cbn [pending runningw donew tbuf]. lia.
      + exact (so_tbuf _ (xi_slots _ G)).
      + exact (so_done _ (xi_slots _ G)).
      + exact (so_mail _ (xi_slots _ G)).
      + exact (so_wake _ (xi_slots _ G)). }
    eapply XInv_same; [exact G|exact S2|reflexivity| |]; [intros x; rewrite !held_cnt; reflexivity|intros t0 I; exact I].
Qed.

(* a fresh run: no slot is taken in the start state *)
Definition no_slots (s : state) : Prop := Forall (fun p => inprogress (snd p) = []) (workers s).

Lemma no_slots_cnt s : no_slots s -> forall x, cnt x (slots_of s) = 0%nat.
Proof.
  unfold no_slots, slots_of. generalize (workers s). induction l as [|[k v] t IH]; intros F x; [reflexivity|].
  inversion F as [|? ? E F']; subst. cbn [slots_of_ws flat_map fst snd]. fold (slots_of_ws t). unfold wids. cbn [snd] in E. rewrite E. cbn [map app].
  apply IH. exact F'.
Qed.

Lemma start_xinv s e now : Keys_ok s -> Inv_state s -> no_slots s -> XInv (start s e now).
Proof.
  intros K Cp N. constructor; [apply start_slots; assumption|]. right. intros x.
  rewrite (no_slots_cnt _ N). unfold held. reflexivity.
Qed.

Lemma run_xgood P s e now acts : Keys_ok s -> Inv_state s -> no_slots s -> Forall action_ok acts -> XGood (run_at P s e now acts).
Proof.
  intros K Cp N F. unfold run_at.
  assert (XGood (run_until_blocked P (start s e now) loop_fuel)) as G0.
  { intros H. apply rub_xinv; [apply start_xinv; assumption|exact H]. }
  revert G0. generalize (run_until_blocked P (start s e now) loop_fuel).
  induction F as [|a l Ok _ IH]; intros r G; cbn [fold_left]; [exact G|].
  apply IH. apply act_xgood; assumption.
Qed.

From WF Require Proofs.RunnerConserve.

(* the slots of the engine state are exactly the in-flight invocations, whenever the live run loop blocks *)
Theorem run_slots_exact P s e now acts :
  Keys_ok s -> Inv_state s -> no_slots s -> Forall action_ok acts ->
  Runner.outcome (run_at P s e now acts) = ORunning ->
  forall x, cnt x (held (run_at P s e now acts)) = cnt x (slots_of (st (run_at P s e now acts))).
Proof.
  intros K Cp N F O.
  destruct (run_xgood P s e now acts K Cp N F O) as [_ [[n [k [ev [rs [I _]]]]]|X]]; [|exact X].
  destruct (RunnerConserve.run_blocks_only_when_quiescent P s e now acts O) as [T0 _]. rewrite T0 in I. destruct I.
Qed.

(* at a blocked live state nothing is buffered or unharvested, so: every slot of every in_progress list belongs to a
   worker that is running (started and not finished) *)
Theorem run_every_slot_has_a_running_worker P s e now acts n w k :
  Keys_ok s -> Inv_state s -> no_slots s -> Forall action_ok acts ->
  Runner.outcome (run_at P s e now acts) = ORunning ->
  zlookup n (workers (st (run_at P s e now acts))) = Some w -> In k (wids w) ->
  exists ev, In (n, k, ev) (runningw (run_at P s e now acts)).
Proof.
  intros K Cp N F O L Hk.
  pose proof (run_slots_exact P s e now acts K Cp N F O (n, k)) as X.
  pose proof (run_slots_ok P s e now acts K Cp F O) as S.
  destruct (RunnerConserve.run_blocks_only_when_quiescent P s e now acts O) as [T0 [_ [D0 [P0 _]]]].
  unfold slots_of in X. rewrite (cnt_slots n k _ (so_keys _ S)), L in X.
  assert (1 <= cn k (wids w))%nat as C1 by (unfold cn; apply count_occ_In; exact Hk).
  rewrite held_cnt, T0, D0, P0 in X. cbn [map bufkeys flat_map] in X. rewrite !cnt_nil in X.
  assert (In (n, k) (map kp (runningw (run_at P s e now acts)))) as I by (apply cnt_in; lia).
  apply in_map_iff in I. destruct I as [[[n' k'] ev] [E I]]. unfold kp in E. cbn in E. inversion E; subst. exists ev. exact I.
Qed.
