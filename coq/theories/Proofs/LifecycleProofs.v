(* Theorems about M-Lifecycle (Model/Lifecycle.v): every interleaving of lock operations. *)
From Coq Require Import List ZArith Bool Lia.
Import ListNotations.
From WF Require Import Model.Lifecycle.
Open Scope Z_scope.

Lemma lookup_set_same k v t : lookup k (set_row k v t) = Some v.
Proof.
  induction t as [|[k' v'] r IH]; cbn; [rewrite Z.eqb_refl; reflexivity|].
  destruct (Z.eqb k k') eqn:E; cbn; rewrite ?Z.eqb_refl, ?E; auto.
Qed.
Lemma lookup_set_other k k' v t : k' <> k -> lookup k' (set_row k v t) = lookup k' t.
Proof.
  intro Hne. induction t as [|[k2 v2] r IH]; cbn.
  - destruct (Z.eqb k' k) eqn:E; [apply Z.eqb_eq in E; contradiction|reflexivity].
  - destruct (Z.eqb k k2) eqn:E; cbn.
    + apply Z.eqb_eq in E. subst k2. destruct (Z.eqb k' k) eqn:E2; [apply Z.eqb_eq in E2; contradiction|reflexivity].
    + destruct (Z.eqb k' k2); auto.
Qed.

(* an operation acts on the row of its own run only, and exactly as row_step says *)
Lemma lstep_row t o run :
  lookup run (fst (lstep t o)) =
  if Z.eqb (o_run o) run then fst (row_step (o_now o) (lookup run t) (o_kind o)) else lookup run t.
Proof.
  unfold lstep. destruct (Z.eqb (o_run o) run) eqn:E.
  - apply Z.eqb_eq in E. subst run.
    destruct (row_step (o_now o) (lookup (o_run o) t) (o_kind o)) as [r' res] eqn:Hs. cbn.
    destruct r' as [v|]; [apply lookup_set_same|].
    (* a row never disappears: row_step returns None only for an absent row *)
    destruct (o_kind o), (lookup (o_run o) t) as [[[| |] u]|] eqn:Hl; cbn in Hs; try (inversion Hs; fail);
      try reflexivity; try (destruct ct as [c|]; [destruct (Z.ltb c (o_now o - u))|]; inversion Hs).
  - apply Z.eqb_neq in E.
    destruct (row_step (o_now o) (lookup (o_run o) t) (o_kind o)) as [r' res]. cbn.
    destruct r' as [v|]; [apply lookup_set_other; congruence|reflexivity].
Qed.
Lemma lstep_res t o : snd (lstep t o) = snd (row_step (o_now o) (lookup (o_run o) t) (o_kind o)).
Proof. unfold lstep. destruct (row_step _ _ _). reflexivity. Qed.

(* ---------- the compare-and-set specification of each operation ---------- *)
Lemma begin_release_spec now r :
  (exists u, r = Some (LActive, u) /\ row_step now r BeginRelease = (Some (LReleasing, now), RBool true)) \/
  ((forall u, r <> Some (LActive, u)) /\ row_step now r BeginRelease = (r, RBool false)).
Proof. destruct r as [[[| |] u]|]; cbn; [left; eauto|right|right|right]; split; auto; congruence. Qed.

Lemma complete_release_spec now r :
  (exists u, r = Some (LReleasing, u) /\ row_step now r CompleteRelease = (Some (LReleased, now), RUnit)) \/
  ((forall u, r <> Some (LReleasing, u)) /\ row_step now r CompleteRelease = (r, RUnit)).
Proof. destruct r as [[[| |] u]|]; cbn; [right|left; eauto|right|right]; split; auto; congruence. Qed.

Lemma try_resume_spec now r ct :
  match r with
  | None => row_step now r (TryResume ct) = (r, RNone)
  | Some (LActive, _) => row_step now r (TryResume ct) = (r, RNone)
  | Some (LReleased, _) => row_step now r (TryResume ct) = (Some (LActive, now), RSt LReleased)
  | Some (LReleasing, u) =>
      match ct with
      | Some c => (c < now - u /\ row_step now r (TryResume ct) = (Some (LActive, now), RSt LReleased)) \/
                  (now - u <= c /\ row_step now r (TryResume ct) = (r, RSt LReleasing))
      | None => row_step now r (TryResume ct) = (r, RSt LReleasing)
      end
  end.
Proof.
  destruct r as [[[| |] u]|]; cbn; auto. destruct ct as [c|]; auto.
  destruct (Z.ltb c (now - u)) eqn:E; [left|right]; split; auto; [apply Z.ltb_lt in E|apply Z.ltb_ge in E]; lia.
Qed.

(* state machine: the state of a row changes only along
   (any) -create-> active -begin_release-> releasing -complete_release-> released -try_begin_resume-> active,
   plus releasing -try_begin_resume-> active after the crash timeout *)
Definition st_of (r : row) : option lstate := match r with Some (s, _) => Some s | None => None end.
Definition edge (now : Z) (r : row) (k : kind) (s' : option lstate) : Prop :=
  match k, r with
  | Create, _ => s' = Some LActive
  | BeginRelease, Some (LActive, _) => s' = Some LReleasing
  | CompleteRelease, Some (LReleasing, _) => s' = Some LReleased
  | TryResume _, Some (LReleased, _) => s' = Some LActive
  | TryResume (Some c), Some (LReleasing, u) => s' = Some LActive /\ c < now - u
  | _, _ => False
  end.
Theorem lc_state_machine now r k :
  st_of (fst (row_step now r k)) = st_of r \/ edge now r k (st_of (fst (row_step now r k))).
Proof.
  destruct k; destruct r as [[[| |] u]|]; cbn; auto.
  - destruct ct as [c|]; cbn; auto. destruct (Z.ltb c (now - u)) eqn:E; cbn; auto.
    right. split; [reflexivity|apply Z.ltb_lt in E; lia].
  - right. destruct ct; reflexivity.
Qed.

(* ---------- one owner ---------- *)
Lemma step_counts now r k :
  let '(r', res) := row_step now r k in
  let rel := match k, res with BeginRelease, RBool true => 1%nat | _, _ => 0%nat end in
  let rsm := match k, res with TryResume _, RSt LReleased => 1%nat | _, _ => 0%nat end in
  (rsm + pending r' <= rel + pending r)%nat /\
  (k <> Create -> (rsm + pending r' = rel + pending r)%nat).
Proof.
  destruct k; destruct r as [[[| |] u]|]; cbn; try (split; [lia|intros; try lia; congruence]).
  all: destruct ct as [c|]; cbn; try (split; [lia|intros; lia]).
  destruct (Z.ltb c (now - u)); cbn; split; try lia; intros; lia.
Qed.

Lemma lrun_cons t o ops :
  lrun t (o :: ops) = (fst (lrun (fst (lstep t o)) ops), snd (lstep t o) :: snd (lrun (fst (lstep t o)) ops)).
Proof. cbn. destruct (lstep t o) as [t1 res]. cbn. destruct (lrun t1 ops). reflexivity. Qed.

Theorem lc_one_owner run : forall ops t,
  (count_wins is_resume_win run ops (snd (lrun t ops)) + pending (lookup run (fst (lrun t ops)))
   <= count_wins is_release_win run ops (snd (lrun t ops)) + pending (lookup run t))%nat.
Proof.
  induction ops as [|o ops IH]; intro t; [cbn; lia|].
  rewrite lrun_cons. cbn [fst snd count_wins]. specialize (IH (fst (lstep t o))).
  rewrite lstep_row in IH. rewrite lstep_res.
  unfold is_resume_win, is_release_win in *.
  destruct (Z.eqb (o_run o) run) eqn:E; cbn [andb].
  - apply Z.eqb_eq in E. rewrite E in *.
    pose proof (step_counts (o_now o) (lookup run t) (o_kind o)) as Hc.
    destruct (row_step (o_now o) (lookup run t) (o_kind o)) as [r' res]. cbn [fst snd] in *.
    destruct Hc as (Hc & _).
    destruct (o_kind o), res as [|[|]| |[| |]]; cbn in *; lia.
  - cbn. lia.
Qed.

(* without create (the only non-CAS write) the accounting is exact *)
Theorem lc_one_owner_exact run : forall ops t,
  count_wins is_create run ops (snd (lrun t ops)) = 0%nat ->
  (count_wins is_resume_win run ops (snd (lrun t ops)) + pending (lookup run (fst (lrun t ops)))
   = count_wins is_release_win run ops (snd (lrun t ops)) + pending (lookup run t))%nat.
Proof.
  induction ops as [|o ops IH]; intros t Hc; [cbn; lia|].
  rewrite lrun_cons in *. cbn [fst snd count_wins] in *.
  assert (Hc1 : is_create o (snd (lstep t o)) run = false /\
                count_wins is_create run ops (snd (lrun (fst (lstep t o)) ops)) = 0%nat).
  { destruct (is_create o (snd (lstep t o)) run); [lia|split; [reflexivity|lia]]. }
  destruct Hc1 as (Hcr & Hc1). specialize (IH (fst (lstep t o)) Hc1).
  rewrite lstep_row in IH. rewrite lstep_res in *.
  unfold is_resume_win, is_release_win, is_create in *.
  destruct (Z.eqb (o_run o) run) eqn:E; cbn [andb] in *.
  - apply Z.eqb_eq in E. rewrite E in *.
    pose proof (step_counts (o_now o) (lookup run t) (o_kind o)) as Hs.
    destruct (row_step (o_now o) (lookup run t) (o_kind o)) as [r' res]. cbn [fst snd] in *.
    destruct Hs as (_ & Hs).
    destruct (o_kind o) eqn:Hk; [discriminate| | |]; specialize (Hs ltac:(congruence));
      destruct res as [|[|]| |[| |]]; cbn in *; lia.
  - cbn. lia.
Qed.

(* a resume that wins leaves the run active; on an active (or absent) row nobody wins a resume *)
Theorem lc_win_leaves_active now r ct r' :
  row_step now r (TryResume ct) = (r', RSt LReleased) -> r' = Some (LActive, now).
Proof.
  destruct r as [[[| |] u]|]; cbn; try (intro H; inversion H; reflexivity; fail); try discriminate.
  destruct ct as [c|]; [destruct (Z.ltb c (now - u))|]; intro H; inversion H; reflexivity.
Qed.
Theorem lc_active_no_owner now r ct : st_of r = Some LActive \/ r = None ->
  row_step now r (TryResume ct) = (r, RNone).
Proof. intros [H| -> ]; [|reflexivity]. destruct r as [[[| |] u]|]; cbn in *; try discriminate; reflexivity. Qed.

(* ---------- the crash timeout ---------- *)
Theorem lc_live_releaser_not_preempted now u ct :
  (match ct with Some c => now - u <= c | None => True end) ->
  row_step now (Some (LReleasing, u)) (TryResume ct) = (Some (LReleasing, u), RSt LReleasing).
Proof.
  intro H. cbn. destruct ct as [c|]; [|reflexivity].
  destruct (Z.ltb c (now - u)) eqn:E; [apply Z.ltb_lt in E; lia|reflexivity].
Qed.
Theorem lc_preempt_only_after_timeout now u ct r' :
  row_step now (Some (LReleasing, u)) (TryResume ct) = (r', RSt LReleased) ->
  exists c, ct = Some c /\ c < now - u.
Proof.
  cbn. destruct ct as [c|]; [|discriminate]. destruct (Z.ltb c (now - u)) eqn:E; [|discriminate].
  intros _. exists c. split; [reflexivity|apply Z.ltb_lt in E; lia].
Qed.
(* with a non-negative timeout a release that has just begun cannot be taken over at the same instant *)
Theorem lc_fresh_release_safe now c : 0 <= c ->
  row_step now (fst (row_step now (Some (LActive, now)) BeginRelease)) (TryResume (Some c))
  = (Some (LReleasing, now), RSt LReleasing).
Proof. intro H. cbn. replace (now - now) with 0 by lia. destruct (Z.ltb c 0) eqn:E; [apply Z.ltb_lt in E; lia|reflexivity]. Qed.

(* ---------- C36: without a row nothing is ever released ---------- *)
Definition no_create (run : Z) (ops : list op) : Prop :=
  Forall (fun o => o_run o = run -> o_kind o <> Create) ops.

Theorem lc_no_create_no_release run : forall ops t, no_create run ops -> lookup run t = None ->
  lookup run (fst (lrun t ops)) = None /\
  count_wins is_release_win run ops (snd (lrun t ops)) = 0%nat /\
  count_wins is_resume_win run ops (snd (lrun t ops)) = 0%nat.
Proof.
  induction ops as [|o ops IH]; intros t Hn Hl; [cbn; auto|].
  inversion Hn as [|? ? Ho Hn']; subst. rewrite lrun_cons. cbn [fst snd count_wins].
  assert (Hl1 : lookup run (fst (lstep t o)) = None /\
                is_release_win o (snd (lstep t o)) run = false /\ is_resume_win o (snd (lstep t o)) run = false).
  { rewrite lstep_row, lstep_res. unfold is_release_win, is_resume_win.
    destruct (Z.eqb (o_run o) run) eqn:E; cbn [andb]; [|auto].
    apply Z.eqb_eq in E. specialize (Ho E). rewrite E, Hl.
    destruct (o_kind o); try congruence; cbn; auto. }
  destruct Hl1 as (Hl1 & H1 & H2). rewrite H1, H2.
  destruct (IH (fst (lstep t o)) Hn' Hl1) as (A & B & C). auto.
Qed.
