(* Proofs about Model/DnsId.v (C32).  Facts about the constants of Generated.v are proved by
   computation / lia on the unfolded constants: when a constant or character class in the source
   changes in a way that matters, the corresponding fact — and with it the property — stops
   compiling. *)
From Coq Require Import List ZArith Bool Lia ZifyBool Arith.
Import ListNotations.
From WF Require Import Generated Model.DnsId.
Open Scope Z_scope.

Definition HY : Z := 45.

(* ------------------------------------------------------------------------------------------ *)
(* Facts about the generated constants                                                         *)

Ltac unfold_classes :=
  cbv [keep in_ranges in_chars existsb c32_keep_ranges c32_dns_first c32_dns_mid c32_dns_last
       c32_rstrip_chars alpha_ranges is_alpha is_digit fst snd HY] in *.

Lemma keep_is_alnum : forall c,
  keep c = true <-> (97 <= c <= 122 \/ 48 <= c <= 57).
Proof. intro c. unfold_classes. lia. Qed.

Lemma keep_mid : forall c, keep c = true -> in_ranges c32_dns_mid c = true.
Proof. intro c. unfold_classes. lia. Qed.

Lemma hy_mid : in_ranges c32_dns_mid HY = true.
Proof. reflexivity. Qed.

Lemma keep_last : forall c, keep c = true -> in_ranges c32_dns_last c = true.
Proof. intro c. unfold_classes. lia. Qed.

Lemma keep_not_hy : forall c, keep c = true -> c <> HY.
Proof. intro c. unfold_classes. lia. Qed.

Lemma mid_split : forall c, in_ranges c32_dns_mid c = true -> keep c = true \/ c = HY.
Proof. intro c. unfold_classes. lia. Qed.

Lemma rstrip_chars_is_hy : forall c, in_chars c32_rstrip_chars c = (c =? HY).
Proof. intro c. unfold_classes. lia. Qed.

Lemma mid_alpha_first : forall c,
  in_ranges c32_dns_mid c = true -> is_alpha c = true -> in_ranges c32_dns_first c = true.
Proof. intro c. unfold_classes. lia. Qed.

Lemma first_keep : forall c, in_ranges c32_dns_first c = true -> keep c = true.
Proof. intro c. unfold_classes. lia. Qed.

Lemma keep_digit_or_first : forall c,
  keep c = true -> is_digit c = true \/ in_ranges c32_dns_first c = true.
Proof. intro c. unfold_classes. lia. Qed.

Lemma keep_alpha_or_digit : forall c, keep c = true -> is_alpha c = false -> is_digit c = true.
Proof. intro c. unfold_classes. lia. Qed.

Lemma hex_alphabet_keep : forallb keep c32_hex_alphabet = true.
Proof. reflexivity. Qed.
Lemma letter_alphabet_first : forallb (in_ranges c32_dns_first) c32_letter_alphabet = true.
Proof. reflexivity. Qed.
Lemma hex_alphabet_nonempty : c32_hex_alphabet <> [].
Proof. discriminate. Qed.
Lemma letter_alphabet_nonempty : c32_letter_alphabet <> [].
Proof. discriminate. Qed.

(* ------------------------------------------------------------------------------------------ *)
(* Generic list helpers                                                                        *)

Definition head_ok (P : Z -> bool) (s : str) : Prop :=
  match s with [] => True | c :: _ => P c = true end.

Lemma last_cons_ne : forall (A : Type) (a : A) l d, l <> [] -> last (a :: l) d = last l d.
Proof. intros A a l d H. destruct l; [congruence | reflexivity]. Qed.

Lemma Forall_last : forall (P : Z -> Prop) l d, l <> [] -> Forall P l -> P (last l d).
Proof.
  intros P l d Hne H. induction H as [|x l Hx Hl IH]; [congruence|].
  destruct l as [|y l']; [exact Hx|]. rewrite last_cons_ne by discriminate. apply IH. discriminate.
Qed.

Lemma Forall_removelast : forall (P : Z -> Prop) l, Forall P l -> Forall P (removelast l).
Proof.
  intros P l H. induction H as [|x l Hx Hl IH]; [constructor|].
  destruct l as [|y l']; [constructor|]. cbn [removelast]. constructor; assumption.
Qed.

Lemma removelast_length : forall (l : str), l <> [] -> S (length (removelast l)) = length l.
Proof.
  induction l as [|a l IH]; intro H; [congruence|].
  destruct l as [|b l']; [reflexivity|]. cbn [removelast length]. f_equal. apply IH. discriminate.
Qed.

Lemma firstn_head_ok : forall P n s, head_ok P s -> head_ok P (firstn n s).
Proof. intros P n s H. destruct n, s; cbn; auto. Qed.

Lemma Forall_firstn : forall (P : Z -> Prop) n l, Forall P l -> Forall P (firstn n l).
Proof.
  intros P n l H. revert n. induction H as [|x l Hx Hl IH]; intro n; destruct n; cbn; constructor; auto.
Qed.

Lemma slice_to_is_firstn : forall n s, exists k, slice_to n s = firstn k s /\ (0 <= n -> k = Z.to_nat n).
Proof.
  intros n s. unfold slice_to. destruct (n <? 0) eqn:E.
  - eexists. split; [reflexivity|]. lia.
  - eexists. split; [reflexivity|]. reflexivity.
Qed.

(* ------------------------------------------------------------------------------------------ *)
(* The three re.sub steps                                                                      *)

Definition idc (c : Z) : Prop := keep c = true \/ c = HY.

Lemma subst_cons : forall c s, subst (c :: s) = (if keep c then c else HY) :: subst s.
Proof. intros c s. unfold subst. cbn [flat_map]. destruct (keep c); reflexivity. Qed.

Lemma subst_idc : forall s, Forall idc (subst s).
Proof.
  induction s as [|c s IH]; [constructor|]. rewrite subst_cons. constructor; [|exact IH].
  destruct (keep c) eqn:E; [left; exact E | right; reflexivity].
Qed.

Lemma subst_alnums : forall s, filter keep (subst s) = filter keep s.
Proof.
  induction s as [|c s IH]; [reflexivity|]. rewrite subst_cons. cbn [filter].
  destruct (keep c) eqn:E; rewrite ?E, IH; [reflexivity|].
  replace (keep HY) with false by reflexivity. reflexivity.
Qed.

Lemma collapse_cons : forall c t,
  collapse (c :: t) =
  if c =? HY then match t with
                  | d :: _ => if d =? HY then collapse t else HY :: collapse t
                  | [] => [HY]
                  end
  else c :: collapse t.
Proof. intros c t. reflexivity. Qed.

Lemma collapse_idc : forall s, Forall idc s -> Forall idc (collapse s).
Proof.
  induction s as [|c t IH]; intro H; [constructor|]. inversion H as [|? ? Hc Ht]; subst.
  rewrite collapse_cons. destruct (c =? HY) eqn:E.
  - destruct t as [|d t']; [repeat constructor; right; reflexivity|].
    destruct (d =? HY); [apply IH; exact Ht|]. constructor; [right; reflexivity | apply IH; exact Ht].
  - constructor; [exact Hc | apply IH; exact Ht].
Qed.

Lemma collapse_alnums : forall s, filter keep (collapse s) = filter keep s.
Proof.
  induction s as [|c t IH]; [reflexivity|]. rewrite collapse_cons. destruct (c =? HY) eqn:E.
  - assert (c = HY) by lia. subst c. cbn [filter]. replace (keep HY) with false by reflexivity.
    destruct t as [|d t']; [reflexivity|].
    destruct (d =? HY); [exact IH|]. cbn [filter]. replace (keep HY) with false by reflexivity. exact IH.
  - cbn [filter]. rewrite IH. reflexivity.
Qed.

(* no two adjacent hyphens *)
Fixpoint nodouble (s : str) : Prop :=
  match s with
  | a :: (b :: _) as t => ~ (a = HY /\ b = HY) /\ nodouble t
  | _ => True
  end.

Lemma collapse_head : forall s, head_ok (fun c => negb (c =? HY)) s ->
  head_ok (fun c => negb (c =? HY)) (collapse s).
Proof.
  intros [|c t] H; [exact I|]. cbn [head_ok] in H. rewrite collapse_cons.
  destruct (c =? HY) eqn:E; [discriminate|]. cbn [head_ok]. rewrite E. reflexivity.
Qed.

Lemma collapse_nodouble : forall s, nodouble (collapse s).
Proof.
  induction s as [|c t IH]; [exact I|]. rewrite collapse_cons. destruct (c =? HY) eqn:E.
  - destruct t as [|d t']; [exact I|]. destruct (d =? HY) eqn:E2; [exact IH|].
    assert (Hh : head_ok (fun c => negb (c =? HY)) (collapse (d :: t'))).
    { apply collapse_head. cbn. rewrite E2. reflexivity. }
    destruct (collapse (d :: t')) as [|x r] eqn:Ec; [exact I|].
    cbn [nodouble]. split; [|exact IH]. cbn [head_ok] in Hh. lia.
  - destruct (collapse t) as [|x r] eqn:Ec; [exact I|]. cbn [nodouble]. split; [lia | exact IH].
Qed.

Lemma strip_lead_eq : forall s,
  strip_lead s = match s with c :: t => if c =? HY then t else s | [] => [] end.
Proof. intros [|c t]; reflexivity. Qed.

Lemma strip_trail_cons : forall c t,
  strip_trail (c :: t) = match t with [] => if c =? HY then [] else [c] | _ => c :: strip_trail t end.
Proof. intros c [|d t]; reflexivity. Qed.

Lemma strip_lead_idc : forall s, Forall idc s -> Forall idc (strip_lead s).
Proof.
  intros s H. rewrite strip_lead_eq. destruct s as [|c t]; [constructor|].
  destruct (c =? HY); [inversion H; assumption | exact H].
Qed.

Lemma strip_trail_idc : forall s, Forall idc s -> Forall idc (strip_trail s).
Proof.
  induction s as [|c t IH]; intro H; [constructor|]. inversion H as [|? ? Hc Ht]; subst.
  rewrite strip_trail_cons. destruct t as [|d t'].
  - destruct (c =? HY); [constructor | exact H].
  - constructor; [exact Hc | apply IH; exact Ht].
Qed.

Lemma strip_lead_alnums : forall s, filter keep (strip_lead s) = filter keep s.
Proof.
  intro s. rewrite strip_lead_eq. destruct s as [|c t]; [reflexivity|].
  destruct (c =? HY) eqn:E; [|reflexivity]. assert (c = HY) by lia. subst c. reflexivity.
Qed.

Lemma strip_trail_alnums : forall s, filter keep (strip_trail s) = filter keep s.
Proof.
  induction s as [|c t IH]; [reflexivity|]. rewrite strip_trail_cons. destruct t as [|d t'].
  - destruct (c =? HY) eqn:E; [|reflexivity]. assert (c = HY) by lia. subst c. reflexivity.
  - cbn [filter] in *. rewrite IH. reflexivity.
Qed.

Lemma sanitize_idc : forall s, Forall idc (sanitize s).
Proof.
  intro s. unfold sanitize. apply strip_trail_idc, strip_lead_idc, collapse_idc, subst_idc.
Qed.

(* the alphanumerics of the sanitised form are exactly the alphanumerics of the name, in order *)
Lemma sanitize_alnums : forall s, filter keep (sanitize s) = filter keep s.
Proof.
  intro s. unfold sanitize.
  rewrite strip_trail_alnums, strip_lead_alnums, collapse_alnums, subst_alnums. reflexivity.
Qed.

Lemma strip_lead_nodouble : forall s, nodouble s -> nodouble (strip_lead s).
Proof.
  intros s H. rewrite strip_lead_eq. destruct s as [|c t]; [exact I|].
  destruct (c =? HY); [|exact H]. destruct t; [exact I | apply H].
Qed.

Lemma strip_lead_head : forall s, nodouble s -> head_ok (fun c => negb (c =? HY)) (strip_lead s).
Proof.
  intros s H. rewrite strip_lead_eq. destruct s as [|c t]; [exact I|].
  destruct (c =? HY) eqn:E.
  - destruct t as [|d t']; [exact I|]. cbn [nodouble] in H. cbn [head_ok]. lia.
  - cbn [head_ok]. rewrite E. reflexivity.
Qed.

Lemma strip_trail_nodouble : forall s, nodouble s -> nodouble (strip_trail s).
Proof.
  induction s as [|c t IH]; intro H; [exact I|]. rewrite strip_trail_cons. destruct t as [|d t'].
  - destruct (c =? HY); exact I.
  - assert (Ht : nodouble (d :: t')) by (cbn [nodouble] in H; apply H).
    specialize (IH Ht). rewrite strip_trail_cons in *. destruct t' as [|e t''].
    + destruct (d =? HY); [exact I|]. cbn [nodouble]. split; [|exact I]. cbn [nodouble] in H. tauto.
    + cbn [nodouble]. split; [cbn [nodouble] in H; tauto | exact IH].
Qed.

Lemma strip_trail_head : forall s, head_ok (fun c => negb (c =? HY)) s ->
  head_ok (fun c => negb (c =? HY)) (strip_trail s).
Proof.
  intros [|c t] H; [exact I|]. rewrite strip_trail_cons. destruct t.
  - cbn [head_ok] in H. destruct (c =? HY) eqn:E; [cbn in H; discriminate|].
    cbn [head_ok]. rewrite E. reflexivity.
  - exact H.
Qed.

Lemma strip_trail_last : forall s, nodouble s -> strip_trail s <> [] -> last (strip_trail s) 0 <> HY.
Proof.
  induction s as [|c t IH]; intros H Hne; [cbn in Hne; congruence|]. rewrite strip_trail_cons in *.
  destruct t as [|d t'].
  - destruct (c =? HY) eqn:E; [congruence|]. cbn. lia.
  - assert (Ht : nodouble (d :: t')) by (cbn [nodouble] in H; apply H).
    destruct (strip_trail (d :: t')) as [|x r] eqn:Es.
    + (* d was a lone trailing hyphen: c is the last and is not one *)
      rewrite strip_trail_cons in Es. destruct t' as [|e t'']; [|discriminate].
      destruct (d =? HY) eqn:E; [|discriminate]. cbn [nodouble] in H. cbn. lia.
    + rewrite last_cons_ne by discriminate. apply IH; [exact Ht | discriminate].
Qed.

(* shape of the sanitised form: only [a-z0-9-], no leading, trailing or doubled hyphen *)
Lemma sanitize_nodouble : forall s, nodouble (sanitize s).
Proof. intro s. unfold sanitize. apply strip_trail_nodouble, strip_lead_nodouble, collapse_nodouble. Qed.

Lemma sanitize_head : forall s, head_ok keep (sanitize s).
Proof.
  intro s. pose proof (sanitize_idc s) as Hi.
  assert (Hh : head_ok (fun c => negb (c =? HY)) (sanitize s)).
  { unfold sanitize. apply strip_trail_head, strip_lead_head, collapse_nodouble. }
  destruct (sanitize s) as [|c t]; [exact I|]. cbn [head_ok] in *. inversion Hi as [|? ? Hc ?]; subst.
  destruct Hc as [Hc|Hc]; [exact Hc | lia].
Qed.

Lemma sanitize_last : forall s, sanitize s <> [] -> keep (last (sanitize s) 0) = true.
Proof.
  intros s Hne. pose proof (sanitize_idc s) as Hi.
  assert (Hl : last (sanitize s) 0 <> HY).
  { unfold sanitize in *. apply strip_trail_last; [apply strip_lead_nodouble, collapse_nodouble | exact Hne]. }
  pose proof (Forall_last idc (sanitize s) 0 Hne Hi) as [H|H]; [exact H | congruence].
Qed.

(* ------------------------------------------------------------------------------------------ *)
(* prefix, truncation, rstrip: the base id                                                     *)

Definition midc (c : Z) : Prop := in_ranges c32_dns_mid c = true.
Definition firstc (c : Z) : bool := in_ranges c32_dns_first c.

Lemma idc_midc : forall c, idc c -> midc c.
Proof. intros c [H|H]; [apply keep_mid; exact H | subst; exact hy_mid]. Qed.

Lemma add_prefix_eq : forall s,
  add_prefix s = match s with [] => [] | c :: _ => if is_alpha c then s else 100 :: HY :: s end.
Proof. intros [|c t]; reflexivity. Qed.

Lemma add_prefix_mid : forall s, Forall midc s -> Forall midc (add_prefix s).
Proof.
  intros s H. rewrite add_prefix_eq. destruct s as [|c t]; [constructor|].
  destruct (is_alpha c); [exact H|]. constructor; [reflexivity|]. constructor; [exact hy_mid | exact H].
Qed.

Lemma add_prefix_head : forall s, Forall midc s -> head_ok firstc (add_prefix s).
Proof.
  intros s H. rewrite add_prefix_eq. destruct s as [|c t]; [exact I|].
  destruct (is_alpha c) eqn:E; [|reflexivity].
  inversion H; subst. cbn [head_ok]. apply mid_alpha_first; assumption.
Qed.

Lemma add_prefix_nonempty : forall s, s <> [] -> add_prefix s <> [].
Proof. intros [|c t] H; [congruence|]. rewrite add_prefix_eq. destruct (is_alpha c); discriminate. Qed.

Lemma rstrip_cons : forall cs c t,
  rstrip cs (c :: t) = match rstrip cs t with [] => if in_chars cs c then [] else [c] | r => c :: r end.
Proof. reflexivity. Qed.

Lemma rstrip_Forall : forall (P : Z -> Prop) cs s, Forall P s -> Forall P (rstrip cs s).
Proof.
  intros P cs s H. induction H as [|c t Hc Ht IH]; [constructor|]. rewrite rstrip_cons.
  destruct (rstrip cs t) as [|x r].
  - destruct (in_chars cs c); repeat constructor; exact Hc.
  - constructor; assumption.
Qed.

Lemma rstrip_length : forall cs s, (length (rstrip cs s) <= length s)%nat.
Proof.
  intros cs s. induction s as [|c t IH]; [apply le_n|]. rewrite rstrip_cons.
  destruct (rstrip cs t) as [|x r].
  - destruct (in_chars cs c); cbn [length]; lia.
  - cbn [length] in *. lia.
Qed.

Lemma rstrip_head : forall P cs s, head_ok P s -> head_ok P (rstrip cs s).
Proof.
  intros P cs [|c t] H; [exact I|]. rewrite rstrip_cons. destruct (rstrip cs t).
  - destruct (in_chars cs c); [exact I | exact H].
  - exact H.
Qed.

Lemma rstrip_nonempty : forall cs c t, in_chars cs c = false -> rstrip cs (c :: t) <> [].
Proof.
  intros cs c t H. rewrite rstrip_cons. destruct (rstrip cs t); [rewrite H|]; discriminate.
Qed.

Lemma rstrip_last : forall cs s, rstrip cs s <> [] -> in_chars cs (last (rstrip cs s) 0) = false.
Proof.
  intros cs s. induction s as [|c t IH]; intro Hne; [cbn in Hne; congruence|].
  rewrite rstrip_cons in *. destruct (rstrip cs t) as [|x r] eqn:E.
  - destruct (in_chars cs c) eqn:Ec; [congruence | exact Ec].
  - rewrite last_cons_ne by discriminate. apply IH. discriminate.
Qed.

(* a string that is empty or is a label by construction *)
Record labelish (b : str) : Prop := {
  lb_head : head_ok firstc b;
  lb_mid : Forall midc b;
  lb_last : b <> [] -> last b 0 <> HY;
  lb_len : (Z.of_nat (length b) <= c32_max_length)%Z
}.

Lemma firstn_length_le : forall (n : nat) (s : str), (length (firstn n s) <= n)%nat.
Proof. intros n s. rewrite firstn_length. lia. Qed.

Lemma base_labelish : forall s, labelish (base s).
Proof.
  intro s. unfold base.
  assert (Hm : Forall midc (add_prefix (sanitize s))).
  { apply add_prefix_mid. eapply Forall_impl; [apply idc_midc | apply sanitize_idc]. }
  assert (Hh : head_ok firstc (add_prefix (sanitize s))).
  { apply add_prefix_head. eapply Forall_impl; [apply idc_midc | apply sanitize_idc]. }
  destruct (slice_to_is_firstn c32_max_length (add_prefix (sanitize s))) as [k [Ek Hk]].
  rewrite Ek. specialize (Hk ltac:(unfold c32_max_length; lia)).
  constructor.
  - apply rstrip_head, firstn_head_ok, Hh.
  - apply rstrip_Forall, Forall_firstn, Hm.
  - intro Hne. pose proof (rstrip_last _ _ Hne) as Hl. rewrite rstrip_chars_is_hy in Hl. lia.
  - pose proof (rstrip_length c32_rstrip_chars (firstn k (add_prefix (sanitize s)))) as H1.
    pose proof (firstn_length_le k (add_prefix (sanitize s))) as H2. subst k. unfold c32_max_length in *. lia.
Qed.

Lemma firstc_not_rstripped : forall c, firstc c = true -> in_chars c32_rstrip_chars c = false.
Proof. intro c. unfold firstc. unfold_classes. lia. Qed.

Lemma base_nonempty : forall s, sanitize s <> [] -> base s <> [].
Proof.
  intros s Hne. unfold base.
  assert (Hh : head_ok firstc (add_prefix (sanitize s))).
  { apply add_prefix_head. eapply Forall_impl; [apply idc_midc | apply sanitize_idc]. }
  pose proof (add_prefix_nonempty _ Hne) as Hp.
  destruct (add_prefix (sanitize s)) as [|c t]; [congruence|].
  unfold slice_to, c32_max_length. cbn [Z.ltb Z.compare Z.to_nat Pos.to_nat Pos.iter_op Init.Nat.add].
  change (firstn 63 (c :: t)) with (c :: firstn 62 t).
  apply rstrip_nonempty. apply firstc_not_rstripped. exact Hh.
Qed.

(* ------------------------------------------------------------------------------------------ *)
(* DNS-1035 regex                                                                              *)

Lemma dns_full_intro : forall b, b <> [] -> labelish b -> dns_full b = true.
Proof.
  intros b Hne [Hh Hm Hl Hlen]. destruct b as [|c r]; [congruence|].
  cbn [dns_full]. cbn [head_ok] in Hh. unfold firstc in Hh. rewrite Hh. cbn [andb].
  destruct r as [|d r']; [reflexivity|]. set (rr := d :: r') in *.
  assert (Hrne : rr <> []) by (subst rr; discriminate).
  inversion Hm as [|? ? _ Hr]; subst.
  pose proof (removelast_length rr Hrne) as Hrl.
  assert (Hlast : in_ranges c32_dns_last (last rr 0) = true).
  { specialize (Hl ltac:(discriminate)). rewrite last_cons_ne in Hl by exact Hrne.
    pose proof (Forall_last midc rr 0 Hrne Hr) as Hmm. destruct (mid_split _ Hmm) as [Hk|Hk];
      [apply keep_last; exact Hk | congruence]. }
  assert (Hmid : forallb (in_ranges c32_dns_mid) (removelast rr) = true).
  { apply forallb_forall. intros x Hx. pose proof (Forall_removelast midc rr Hr) as Hf.
    rewrite Forall_forall in Hf. apply Hf. exact Hx. }
  rewrite Hmid, Hlast. cbn [length] in Hlen. unfold c32_max_length, c32_dns_mid_min, c32_dns_mid_max in *.
  lia.
Qed.

Lemma dns_full_match : forall s, dns_full s = true -> dns_match s = true.
Proof. intros s H. unfold dns_match. rewrite H. reflexivity. Qed.

(* what dns_full means, in words: the textual definition of an RFC-1035 label of <= 63 chars *)
Definition is_letter (c : Z) : Prop := 97 <= c <= 122.
Definition is_letdig (c : Z) : Prop := 97 <= c <= 122 \/ 48 <= c <= 57.
Definition is_letdighyp (c : Z) : Prop := is_letdig c \/ c = 45.
Definition rfc1035_label (s : str) : Prop :=
  s <> [] /\ (length s <= 63)%nat /\ is_letter (hd 0 s) /\ Forall is_letdighyp s /\ is_letdig (last s 0).

Lemma dns_full_spec : forall s, dns_full s = true -> rfc1035_label s.
Proof.
  intros [|c r] H; [discriminate|]. cbn [dns_full] in H.
  apply andb_prop in H. destruct H as [Hc H].
  assert (Hc' : is_letter c) by (revert Hc; unfold is_letter; unfold_classes; lia).
  destruct r as [|d r'].
  - unfold rfc1035_label. split; [discriminate|]. split; [cbn; lia|]. split; [exact Hc'|].
    split; [|left; exact Hc']. constructor; [left; left; exact Hc' | constructor].
  - set (rr := d :: r') in *. assert (Hrne : rr <> []) by (subst rr; discriminate).
    apply andb_prop in H. destruct H as [H Hlast]. apply andb_prop in H. destruct H as [H Hmid].
    apply andb_prop in H. destruct H as [_ Hlen].
    pose proof (removelast_length rr Hrne) as Hrl.
    unfold rfc1035_label. split; [discriminate|]. split; [|split; [exact Hc'|split]].
    + cbn [length]. unfold c32_dns_mid_max in Hlen. lia.
    + constructor; [left; left; exact Hc'|].
      rewrite (app_removelast_last 0 Hrne). apply Forall_app. split.
      * rewrite forallb_forall in Hmid. apply Forall_forall. intros x Hx. specialize (Hmid x Hx).
        revert Hmid. unfold is_letdighyp, is_letdig. unfold_classes. lia.
      * constructor; [|constructor]. revert Hlast. unfold is_letdighyp, is_letdig. unfold_classes. lia.
    + rewrite last_cons_ne by exact Hrne. revert Hlast. unfold is_letdig. unfold_classes. lia.
Qed.

(* ------------------------------------------------------------------------------------------ *)
(* _append_random_suffix                                                                       *)

Lemma pick_in : forall alpha i, alpha <> [] -> In (pick alpha i) alpha.
Proof.
  intros alpha i Hne. unfold pick. apply nth_In.
  assert (0 < Z.of_nat (length alpha)) by (destruct alpha; [congruence | cbn [length]; lia]).
  pose proof (Z.mod_pos_bound i (Z.of_nat (length alpha)) H). lia.
Qed.

Lemma hex_of_length : forall d, length (hex_of d) = Z.to_nat c32_randomness.
Proof. intro d. unfold hex_of. rewrite map_length, seq_length. reflexivity. Qed.

Lemma hex_of_keep : forall d, Forall (fun c => keep c = true) (hex_of d).
Proof.
  intro d. unfold hex_of. apply Forall_forall. intros c Hc. apply in_map_iff in Hc.
  destruct Hc as [j [Hj _]]. subst c.
  pose proof hex_alphabet_keep as Hk. rewrite forallb_forall in Hk. apply Hk.
  apply pick_in. exact hex_alphabet_nonempty.
Qed.

Lemma letter_pick_first : forall i, firstc (pick c32_letter_alphabet i) = true.
Proof.
  intro i. pose proof letter_alphabet_first as Hk. rewrite forallb_forall in Hk. apply Hk.
  apply pick_in. exact letter_alphabet_nonempty.
Qed.

Lemma hex_of_cons : forall d, exists h t, hex_of d = h :: t.
Proof.
  intro d. pose proof (hex_of_length d) as H. destruct (hex_of d) as [|h t]; [|eauto].
  unfold c32_randomness in H. cbn in H. lia.
Qed.

Lemma keep_Forall_mid : forall l, Forall (fun c => keep c = true) l -> Forall midc l.
Proof. intros l H. eapply Forall_impl; [|exact H]. intros c Hc. apply keep_mid. exact Hc. Qed.

Lemma last_app_ne : forall (a b : str) d, b <> [] -> last (a ++ b) d = last b d.
Proof.
  induction a as [|x a IH]; intros b d Hb; [reflexivity|].
  cbn [app]. rewrite last_cons_ne; [apply IH; exact Hb|]. destruct a, b; cbn; congruence.
Qed.

Lemma append_suffix_labelish : forall b d letter,
  labelish b -> let r := append_suffix b c32_max_length d letter in labelish r /\ r <> [].
Proof.
  intros b d letter Hb r. subst r. unfold append_suffix.
  destruct (hex_of_cons d) as [h [t Eh]].
  pose proof (hex_of_keep d) as Hk. pose proof (hex_of_length d) as Hlen.
  destruct b as [|c b'].
  - (* empty base: the hex string itself, first character made a letter *)
    rewrite Eh in *. inversion Hk as [|? ? Hh Ht]; subst.
    assert (Hlen5 : (Z.of_nat (length (h :: t)) <= c32_max_length)%Z)
      by (rewrite Hlen; unfold c32_randomness, c32_max_length; lia).
    destruct (is_digit h) eqn:Ed.
    + split; [|discriminate]. constructor.
      * cbn [head_ok]. apply letter_pick_first.
      * constructor; [apply keep_mid, first_keep, letter_pick_first | apply keep_Forall_mid; exact Ht].
      * intros _. assert (Hall : Forall (fun c => keep c = true) (pick c32_letter_alphabet letter :: t)).
        { constructor; [apply first_keep, letter_pick_first | exact Ht]. }
        apply keep_not_hy. apply (Forall_last (fun c => keep c = true)); [discriminate | exact Hall].
      * cbn [length] in *. exact Hlen5.
    + split; [|discriminate]. constructor.
      * cbn [head_ok]. destruct (keep_digit_or_first h Hh) as [H|H]; [congruence | exact H].
      * apply keep_Forall_mid. exact Hk.
      * intros _. apply keep_not_hy. apply (Forall_last (fun c => keep c = true)); [discriminate | exact Hk].
      * exact Hlen5.
  - (* non-empty base: base[:to_take] + "-" + hex *)
    destruct Hb as [Hh Hm Hl Hbl].
    destruct (slice_to_is_firstn (c32_to_take c32_max_length c32_randomness) (c :: b')) as [k [Ek Hk']].
    rewrite Ek. specialize (Hk' ltac:(unfold c32_to_take, c32_max_length, c32_randomness; lia)).
    assert (Ekv : k = 57%nat)
      by (subst k; unfold c32_to_take, c32_max_length, c32_randomness; reflexivity).
    subst k. change c32_suffix_sep with [HY]. split.
    + constructor.
      * rewrite Ekv. cbn [firstn app head_ok]. exact Hh.
      * apply Forall_app. split; [apply Forall_firstn; exact Hm|].
        constructor; [exact hy_mid | apply keep_Forall_mid; exact Hk].
      * intros _. rewrite last_app_ne by discriminate. rewrite Eh.
        change ([HY] ++ h :: t) with (HY :: h :: t). rewrite last_cons_ne by discriminate. rewrite <- Eh.
        apply keep_not_hy. apply (Forall_last (fun c => keep c = true)); [rewrite Eh; discriminate | exact Hk].
      * rewrite app_length. cbn [app length]. rewrite Hlen.
        pose proof (firstn_length_le (Z.to_nat (c32_to_take c32_max_length c32_randomness)) (c :: b')) as Hf.
        rewrite Ekv in *. unfold c32_randomness, c32_max_length in *. lia.
    + rewrite Ekv. cbn [firstn app]. discriminate.
Qed.

(* ------------------------------------------------------------------------------------------ *)
(* the retry loop                                                                              *)

Lemma try_ids_result : forall (P : str -> Prop) oracle dr b fuel i n cand id n' k,
  P cand -> (forall m, P (suffixed b dr m)) ->
  try_ids oracle dr b fuel i n cand = (Some id, n', k) -> P id.
Proof.
  intros P oracle dr b fuel. induction fuel as [|f IH]; intros i n cand id n' k Hc Hs H.
  - cbn in H. discriminate.
  - cbn [try_ids] in H. destruct (oracle i cand).
    + inversion H; subst. exact Hc.
    + eapply IH; [apply Hs | exact Hs | exact H].
Qed.

(* exact account of the loop: which candidate was accepted, after how many calls *)
Definition cands (b : str) (dr : draws) (cand : str) (n j : nat) : str :=
  match j with O => cand | S j' => suffixed b dr (n + j') end.

Lemma cands_shift : forall b dr cand n j,
  cands b dr (suffixed b dr n) (S n) j = cands b dr cand n (S j).
Proof. intros. destruct j; cbn [cands]; f_equal; lia. Qed.

Lemma try_ids_account : forall oracle dr b fuel i n cand r n' k,
  try_ids oracle dr b fuel i n cand = (r, n', k) ->
  match r with
  | Some id => exists j, (j < fuel)%nat /\ id = cands b dr cand n j /\ oracle (i + j)%nat id = true
               /\ (forall j', (j' < j)%nat -> oracle (i + j')%nat (cands b dr cand n j') = false)
               /\ n' = (n + j)%nat /\ k = (i + j + 1)%nat
  | None => (forall j', (j' < fuel)%nat -> oracle (i + j')%nat (cands b dr cand n j') = false)
            /\ n' = (n + fuel)%nat /\ k = (i + fuel)%nat
  end.
Proof.
  intros oracle dr b fuel. induction fuel as [|f IH]; intros i n cand r n' k H.
  - cbn in H. inversion H; subst. split; [intros j' Hj; lia | split; lia].
  - cbn [try_ids] in H. destruct (oracle i cand) eqn:Eo.
    + inversion H; subst. exists 0%nat. cbn [cands]. rewrite Nat.add_0_r.
      split; [lia|]. split; [reflexivity|]. split; [exact Eo|]. split; [intros j' Hj; lia|]. split; lia.
    + specialize (IH _ _ _ _ _ _ H). destruct r as [id|].
      * destruct IH as [j [Hj [Eid [Hacc [Hrej [En Ek]]]]]].
        exists (S j). split; [lia|]. split; [rewrite <- cands_shift; exact Eid|].
        split; [replace (i + S j)%nat with (S i + j)%nat by lia; exact Hacc|].
        split; [|split; lia].
        intros j' Hj'. destruct j' as [|j''].
        -- cbn [cands]. rewrite Nat.add_0_r. exact Eo.
        -- replace (i + S j'')%nat with (S i + j'')%nat by lia. rewrite <- cands_shift. apply Hrej. lia.
      * destruct IH as [Hrej [En Ek]]. split; [|split; lia].
        intros j' Hj'. destruct j' as [|j''].
        -- cbn [cands]. rewrite Nat.add_0_r. exact Eo.
        -- replace (i + S j'')%nat with (S i + j'')%nat by lia. rewrite <- cands_shift. apply Hrej. lia.
Qed.

(* ------------------------------------------------------------------------------------------ *)
(* too_short = fewer than three alphanumerics                                                  *)

Definition alnum_count (s : str) : Z := Z.of_nat (length (filter keep s)).

Lemma filter_not_hy_keep : forall l, Forall idc l ->
  filter (fun c => negb (c =? c32_short_removed)) l = filter keep l.
Proof.
  intros l H. induction H as [|c l Hc Hl IH]; [reflexivity|]. cbn [filter]. rewrite IH.
  change c32_short_removed with HY.
  destruct Hc as [Hc|Hc].
  - rewrite Hc. pose proof (keep_not_hy c Hc). destruct (c =? HY) eqn:E; [lia | reflexivity].
  - subst c. reflexivity.
Qed.

Lemma too_short_spec : forall s, too_short s = (alnum_count s <? 3).
Proof.
  intro s. unfold too_short, alnum_count. change c32_short_on_alnum with true. cbv iota.
  rewrite filter_not_hy_keep by apply sanitize_idc. rewrite sanitize_alnums. reflexivity.
Qed.

Lemma alnums_sanitize_nonempty : forall s, 1 <= alnum_count s -> sanitize s <> [].
Proof.
  intros s H E. unfold alnum_count in H. rewrite <- sanitize_alnums, E in H. cbn in H. lia.
Qed.

(* ------------------------------------------------------------------------------------------ *)
(* Main theorems                                                                               *)

Definition valid_id (id : str) : Prop :=
  dns_full id = true /\ dns_match id = true /\ rfc1035_label id.

Lemma labelish_valid : forall b, b <> [] -> labelish b -> valid_id b.
Proof.
  intros b Hne Hl. pose proof (dns_full_intro b Hne Hl) as H.
  split; [exact H|]. split; [apply dns_full_match; exact H | apply dns_full_spec; exact H].
Qed.

Lemma suffixed_valid : forall s dr m, valid_id (suffixed (base s) dr m).
Proof.
  intros s dr m. unfold suffixed.
  destruct (append_suffix_labelish (base s) (fst (dr m)) (snd (dr m)) (base_labelish s)) as [Hl Hne].
  apply labelish_valid; assumption.
Qed.

Theorem find_id_valid : forall oracle dr s force id n k,
  find_deployment_id oracle dr s force = (Some id, n, k) -> valid_id id.
Proof.
  intros oracle dr s force id n k H. unfold find_deployment_id in H.
  destruct (too_short s || force) eqn:E.
  - eapply try_ids_result with (P := valid_id); [| |exact H]; intros; apply suffixed_valid.
  - apply orb_false_elim in E. destruct E as [Ets _]. rewrite too_short_spec in Ets.
    eapply try_ids_result with (P := valid_id); [| |exact H].
    + apply labelish_valid; [|apply base_labelish]. apply base_nonempty, alnums_sanitize_nonempty. lia.
    + intros; apply suffixed_valid.
Qed.

(* every candidate ever shown to the oracle is a valid label as well *)
Theorem find_id_candidates_valid : forall (dr : draws) s force,
  (too_short s || force = true -> forall m, valid_id (suffixed (base s) dr m)) /\
  (too_short s || force = false -> valid_id (base s) /\ forall m, valid_id (suffixed (base s) dr m)).
Proof.
  intros dr s force. split.
  - intros _ m. apply suffixed_valid.
  - intro E. apply orb_false_elim in E. destruct E as [Ets _]. rewrite too_short_spec in Ets. split.
    + apply labelish_valid; [|apply base_labelish]. apply base_nonempty, alnums_sanitize_nonempty. lia.
    + intro m. apply suffixed_valid.
Qed.

Lemma attempts_pos : (0 < Z.to_nat c32_attempts)%nat.
Proof. unfold c32_attempts. cbn. lia. Qed.

(* no suffix was ever drawn  <->  >= 3 alphanumerics, not forced, first candidate accepted;
   and then the returned id is the base id *)
Theorem find_id_unsuffixed_iff : forall oracle dr s force r n k,
  find_deployment_id oracle dr s force = (r, n, k) ->
  (n = 0%nat <-> (3 <= alnum_count s /\ force = false /\ oracle 0%nat (base s) = true)) /\
  (n = 0%nat -> r = Some (base s) /\ k = 1%nat).
Proof.
  intros oracle dr s force r n k H. unfold find_deployment_id in H.
  pose proof attempts_pos as Hpos.
  destruct (too_short s || force) eqn:E.
  - pose proof (try_ids_account _ _ _ _ _ _ _ _ _ _ H) as A.
    assert (Hn : n <> 0%nat).
    { destruct r as [id|]; [destruct A as [j [_ [_ [_ [_ [En _]]]]]] | destruct A as [_ [En _]]]; lia. }
    split; [|intro; congruence]. split; [intro; congruence|].
    intros [Ha [Hf _]]. rewrite too_short_spec in E. subst force. rewrite orb_false_r in E. lia.
  - apply orb_false_elim in E. destruct E as [Ets Ef]. rewrite too_short_spec in Ets.
    pose proof (try_ids_account _ _ _ _ _ _ _ _ _ _ H) as A.
    destruct r as [id|].
    + destruct A as [j [Hj [Eid [Hacc [Hrej [En Ek]]]]]]. cbn [Nat.add] in *. subst n k. split.
      * split.
        -- intro Hn0. subst j. cbn [cands] in *. subst id.
           split; [lia|]. split; [exact Ef | exact Hacc].
        -- intros [_ [_ Ho]]. destruct j as [|j']; [reflexivity|].
           specialize (Hrej 0%nat ltac:(lia)). cbn [cands] in Hrej. congruence.
      * intro Hn0. subst j. cbn [cands] in *. subst id. split; reflexivity.
    + destruct A as [Hrej [En Ek]]. cbn [Nat.add] in *. split.
      * split; [intro; lia|]. intros [_ [_ Ho]].
        specialize (Hrej 0%nat Hpos). cbn [cands] in Hrej. congruence.
      * intro; lia.
Qed.

(* a returned id for which a suffix was drawn is exactly the suffixed form built from the last
   draw, and was accepted by the oracle *)
Theorem find_id_suffixed_shape : forall oracle dr s force id n k,
  find_deployment_id oracle dr s force = (Some id, n, k) -> (0 < n)%nat ->
  id = suffixed (base s) dr (n - 1) /\ oracle (k - 1)%nat id = true.
Proof.
  intros oracle dr s force id n k H Hn. unfold find_deployment_id in H.
  destruct (too_short s || force) eqn:E;
    pose proof (try_ids_account _ _ _ _ _ _ _ _ _ _ H) as A;
    destruct A as [j [Hj [Eid [Hacc [_ [En Ek]]]]]]; cbn [Nat.add] in *.
  - split.
    + rewrite Eid. destruct j as [|j']; cbn [cands]; f_equal; lia.
    + replace (k - 1)%nat with j by lia. exact Hacc.
  - split.
    + rewrite Eid. destruct j as [|j']; [lia|]. cbn [cands]. f_equal. lia.
    + replace (k - 1)%nat with j by lia. exact Hacc.
Qed.

(* the concrete shape of a suffixed id *)
Theorem suffixed_form : forall b dr m,
  let hex := hex_of (fst (dr m)) in
  length hex = 5%nat /\ Forall (fun c => In c c32_hex_alphabet) hex /\
  match b with
  | [] => exists h t, hex = h :: t /\
          suffixed b dr m = (if is_digit h then pick c32_letter_alphabet (snd (dr m)) else h) :: t
  | _ => suffixed b dr m = firstn 57 b ++ [45] ++ hex
  end.
Proof.
  intros b dr m hex. subst hex. split; [rewrite hex_of_length; reflexivity|]. split.
  - unfold hex_of. apply Forall_forall. intros c Hc. apply in_map_iff in Hc.
    destruct Hc as [j [Hj _]]. subst c. apply pick_in. exact hex_alphabet_nonempty.
  - destruct b as [|c b'].
    + destruct (hex_of_cons (fst (dr m))) as [h [t Eh]]. exists h, t. split; [exact Eh|].
      unfold suffixed, append_suffix. rewrite Eh. destruct (is_digit h); reflexivity.
    + reflexivity.
Qed.

(* fewer than three alphanumerics: a suffix is always drawn *)
Theorem short_name_always_suffixed : forall oracle dr s force r n k,
  alnum_count s < 3 -> find_deployment_id oracle dr s force = (r, n, k) -> (0 < n)%nat.
Proof.
  intros oracle dr s force r n k Hs H.
  destruct (find_id_unsuffixed_iff _ _ _ _ _ _ _ H) as [[Hiff _] _].
  destruct n; [|lia]. specialize (Hiff eq_refl). lia.
Qed.

(* no id is returned exactly when the oracle refused every one of the 99 candidates *)
Theorem find_id_fails_iff : forall oracle dr s force r n k,
  find_deployment_id oracle dr s force = (r, n, k) ->
  (r = None -> k = 99%nat) /\ (forall id, r = Some id -> (1 <= k <= 99)%nat /\ oracle (k - 1)%nat id = true).
Proof.
  intros oracle dr s force r n k H. unfold find_deployment_id in H.
  destruct (too_short s || force);
    pose proof (try_ids_account _ _ _ _ _ _ _ _ _ _ H) as A; destruct r as [id|].
  all: split; [intro Hr; try discriminate | intros id' Hr; try discriminate].
  all: try (destruct A as [_ [_ Ek]]; cbn [Nat.add] in Ek; exact Ek).
  all: inversion Hr; subst id'; destruct A as [j [Hj [_ [Hacc [_ [_ Ek]]]]]]; cbn [Nat.add] in *;
    change (Z.to_nat c32_attempts) with 99%nat in Hj; split; [lia|];
    replace (k - 1)%nat with j by lia; exact Hacc.
Qed.

(* ------------------------------------------------------------------------------------------ *)
(* "derived from the name's lowercase alphanumerics"                                           *)

Definition is_prefix (a b : str) : Prop := exists rest, b = a ++ rest.

Lemma firstn_prefix : forall (n : nat) (s : str), is_prefix (firstn n s) s.
Proof. intros n s. exists (skipn n s). symmetry. apply firstn_skipn. Qed.

Lemma rstrip_prefix : forall cs s, is_prefix (rstrip cs s) s.
Proof.
  intros cs s. induction s as [|c t IH]; [exists []; reflexivity|]. rewrite rstrip_cons.
  destruct IH as [rest IH]. destruct (rstrip cs t) as [|x r] eqn:E.
  - destruct (in_chars cs c); [exists (c :: t); reflexivity | exists t; reflexivity].
  - exists rest. cbn [app]. f_equal. exact IH.
Qed.

Lemma rstrip_fix : forall cs s, s <> [] -> in_chars cs (last s 0) = false -> rstrip cs s = s.
Proof.
  intros cs s. induction s as [|c t IH]; intros Hne Hl; [congruence|]. rewrite rstrip_cons.
  destruct t as [|d t'].
  - cbn in *. rewrite Hl. reflexivity.
  - rewrite last_cons_ne in Hl by discriminate. rewrite IH by (discriminate || exact Hl). reflexivity.
Qed.

Lemma is_prefix_trans : forall a b c, is_prefix a b -> is_prefix b c -> is_prefix a c.
Proof. intros a b c [r1 H1] [r2 H2]. exists (r1 ++ r2). subst. rewrite app_assoc. reflexivity. Qed.

(* the base id is the sanitised form (alphanumeric runs joined by single hyphens), with "d-" in
   front exactly when it starts with a digit, cut to 63 characters *)
Theorem base_derived : forall s,
  let t := sanitize s in
  filter keep t = filter keep s /\ Forall idc t /\ nodouble t /\ head_ok keep t /\
  (t <> [] -> keep (last t 0) = true) /\
  let p := add_prefix t in
  (p = t \/ (p = 100 :: 45 :: t /\ head_ok is_digit t /\ t <> [])) /\
  (forall c r, t = c :: r -> is_alpha c = true -> p = t) /\
  is_prefix (base s) p /\
  ((length p <= 63)%nat -> base s = p).
Proof.
  intros s t. subst t. split; [apply sanitize_alnums|]. split; [apply sanitize_idc|].
  split; [apply sanitize_nodouble|]. split; [apply sanitize_head|]. split; [apply sanitize_last|].
  cbn zeta. pose proof (sanitize_head s) as Hh. pose proof (sanitize_last s) as Hl.
  split; [|split; [|split]].
  - rewrite add_prefix_eq. destruct (sanitize s) as [|c r] eqn:E; [left; reflexivity|].
    destruct (is_alpha c) eqn:Ea; [left; reflexivity|]. right. split; [reflexivity|]. split; [|discriminate].
    cbn [head_ok] in *. apply keep_alpha_or_digit; assumption.
  - intros c r E Ha. rewrite add_prefix_eq, E, Ha. reflexivity.
  - unfold base. eapply is_prefix_trans; [apply rstrip_prefix|].
    destruct (slice_to_is_firstn c32_max_length (add_prefix (sanitize s))) as [k [Ek _]].
    rewrite Ek. apply firstn_prefix.
  - intro Hlen. unfold base, slice_to. change (c32_max_length <? 0) with false. cbv iota.
    change (Z.to_nat c32_max_length) with 63%nat. rewrite firstn_all2 by exact Hlen.
    destruct (sanitize s) as [|c r] eqn:E; [reflexivity|].
    apply rstrip_fix; [apply add_prefix_nonempty; discriminate|].
    specialize (Hl ltac:(discriminate)). rewrite rstrip_chars_is_hy.
    assert (Hlast : last (add_prefix (c :: r)) 0 = last (c :: r) 0).
    { rewrite add_prefix_eq. destruct (is_alpha c); [reflexivity|].
      rewrite !last_cons_ne by discriminate. reflexivity. }
    rewrite Hlast. pose proof (keep_not_hy _ Hl). lia.
Qed.

(* with at least three alphanumerics the base id has at least three characters *)
Lemma is_prefix_length : forall a b : str, is_prefix a b -> (length a <= length b)%nat.
Proof. intros a b [r H]. subst. rewrite app_length. lia. Qed.

Lemma filter_length_le : forall (f : Z -> bool) l, (length (filter f l) <= length l)%nat.
Proof. intros f l. induction l as [|a l IH]; [apply le_n|]. cbn. destruct (f a); cbn; lia. Qed.

(* reserved display names are forced to a suffix at the create_deployment call site *)
Theorem derive_id_valid : forall oracle dr s id n k,
  derive_id oracle dr s = (Some id, n, k) -> valid_id id.
Proof. intros. eapply find_id_valid. exact H. Qed.

Theorem derive_id_unsuffixed_iff : forall oracle dr s r n k,
  derive_id oracle dr s = (r, n, k) ->
  (n = 0%nat <-> (3 <= alnum_count s /\ ~ In s c32_reserved /\ oracle 0%nat (base s) = true)).
Proof.
  intros oracle dr s r n k H. unfold derive_id in H.
  destruct (find_id_unsuffixed_iff _ _ _ _ _ _ _ H) as [Hiff _]. rewrite Hiff.
  assert (Hr : is_reserved s = false <-> ~ In s c32_reserved).
  { unfold is_reserved. change c32_force_is_lower_name_in_reserved with true. cbv iota.
    destruct (existsb (str_eqb s) c32_reserved) eqn:E.
    - split; [discriminate|]. intro Hn. exfalso. apply Hn. apply existsb_exists in E.
      destruct E as [x [Hx Ex]]. unfold str_eqb in Ex. destruct (list_eq_dec Z.eq_dec s x); [subst; exact Hx | discriminate].
    - split; [|reflexivity]. intros _ Hin.
      assert (existsb (str_eqb s) c32_reserved = true).
      { apply existsb_exists. exists s. split; [exact Hin|]. unfold str_eqb.
        destruct (list_eq_dec Z.eq_dec s s); congruence. }
      congruence. }
  tauto.
Qed.

(* ------------------------------------------------------------------------------------------ *)
(* ---- independent specification: maximal alphanumeric runs joined by single hyphens ---- *)
Fixpoint words (s : str) : list str :=
  match s with
  | [] => []
  | c :: t =>
      if keep c then
        match t with
        | d :: _ => if keep d then match words t with w :: ws => (c :: w) :: ws | [] => [[c]] end
                    else [c] :: words t
        | [] => [[c]]
        end
      else words t
  end.

Fixpoint joinh (ws : list str) : str :=
  match ws with
  | [] => []
  | w :: t => match t with [] => w | _ => w ++ [HY] ++ joinh t end
  end.

Definition ends_sep (s : str) : bool := match rev s with c :: _ => negb (keep c) | [] => false end.
Definition trailj (ws : list str) (b : bool) : str :=
  match ws with [] => [] | _ => joinh ws ++ (if b then [HY] else []) end.

(* one pass: alphanumerics stay, every maximal run of other characters becomes one hyphen *)
Fixpoint squash (s : str) : str :=
  match s with
  | [] => []
  | c :: t =>
      if keep c then c :: squash t
      else match t with
           | d :: _ => if keep d then HY :: squash t else squash t
           | [] => [HY]
           end
  end.

Lemma keep_hy_false : keep HY = false.
Proof. reflexivity. Qed.

Lemma collapse_subst_squash : forall s, collapse (subst s) = squash s.
Proof.
  induction s as [|c t IH]; [reflexivity|]. rewrite subst_cons. cbn [squash].
  destruct (keep c) eqn:Ec.
  - rewrite collapse_cons. pose proof (keep_not_hy c Ec). destruct (c =? HY) eqn:E; [lia|]. rewrite IH. reflexivity.
  - rewrite collapse_cons. change (HY =? HY) with true. cbv iota.
    destruct t as [|d t']; [reflexivity|]. rewrite subst_cons in *. destruct (keep d) eqn:Ed.
    + pose proof (keep_not_hy d Ed). destruct (d =? HY) eqn:E; [lia|]. rewrite IH. reflexivity.
    + change (HY =? HY) with true. cbv iota. exact IH.
Qed.

Lemma squash_head : forall s,
  match s with
  | [] => squash s = []
  | c :: _ => if keep c then exists r, squash s = c :: r else exists r, squash s = HY :: r
  end.
Proof.
  induction s as [|c t IH]; [reflexivity|]. cbn [squash]. destruct (keep c) eqn:Ec; [eauto|].
  destruct t as [|d t']; [eauto|]. destruct (keep d) eqn:Ed; [eauto|]. exact IH.
Qed.

Definition E (s : str) : str := strip_lead (squash s).

Lemma squash_lead_E : forall s,
  squash s = match s with [] => [] | c :: _ => if keep c then E s else HY :: E s end.
Proof.
  intros s. pose proof (squash_head s) as H. unfold E. rewrite strip_lead_eq. destruct s as [|c t]; [exact H|].
  destruct (keep c) eqn:Ec; destruct H as [r Hr]; rewrite Hr.
  - pose proof (keep_not_hy c Ec). destruct (c =? HY) eqn:E1; [lia | reflexivity].
  - change (HY =? HY) with true. reflexivity.
Qed.

Lemma words_keep_head : forall c t, keep c = true -> exists w ws, words (c :: t) = (c :: w) :: ws.
Proof.
  intros c t Hc. cbn [words]. rewrite Hc. destruct t as [|d t']; [eauto|].
  destruct (keep d); [destruct (words (d :: t')); eauto | eauto].
Qed.

Lemma ends_sep_cons : forall c t, t <> [] -> ends_sep (c :: t) = ends_sep t.
Proof.
  intros c t Hne. unfold ends_sep. cbn [rev]. destruct (rev t) as [|x r] eqn:Er.
  - apply (f_equal (@rev Z)) in Er. rewrite rev_involutive in Er. cbn in Er. congruence.
  - reflexivity.
Qed.

Lemma words_cons_sep : forall d t, keep d = false -> words (d :: t) = words t.
Proof. intros d t Hd. cbn [words]. rewrite Hd. reflexivity. Qed.

Lemma words_nil_ends : forall t d, keep d = false -> words (d :: t) = [] -> ends_sep (d :: t) = true.
Proof.
  induction t as [|e t IH]; intros d Hd Hw.
  - unfold ends_sep. cbn [rev app]. rewrite Hd. reflexivity.
  - rewrite ends_sep_cons by discriminate. rewrite words_cons_sep in Hw by exact Hd.
    destruct (keep e) eqn:Ee.
    + destruct (words_keep_head e t Ee) as [w [ws Hw']]. rewrite Hw' in Hw. discriminate.
    + apply IH; assumption.
Qed.

Lemma E_words : forall s, E s = trailj (words s) (ends_sep s).
Proof.
  induction s as [|c t IH]; [reflexivity|].
  unfold E. cbn [squash]. destruct (keep c) eqn:Ec.
  - rewrite strip_lead_eq. pose proof (keep_not_hy c Ec). destruct (c =? HY) eqn:E1; [lia|].
    rewrite (squash_lead_E t). cbn [words]. rewrite Ec. destruct t as [|d t'].
    + unfold trailj, ends_sep. cbn [rev app joinh]. rewrite Ec. reflexivity.
    + rewrite ends_sep_cons by discriminate. rewrite IH. destruct (keep d) eqn:Ed.
      * destruct (words_keep_head d t' Ed) as [w [ws Hw]]. rewrite Hw. cbn [trailj joinh].
        destruct ws; reflexivity.
      * destruct (words (d :: t')) as [|w ws] eqn:Hw.
        -- cbn [trailj joinh]. (* t all separators: ends with a separator *)
           assert (He : ends_sep (d :: t') = true) by (apply words_nil_ends; assumption).
           rewrite He. reflexivity.
        -- cbn [trailj joinh]. rewrite <- app_assoc. reflexivity.
  - cbn [words]. rewrite Ec. destruct t as [|d t'].
    + reflexivity.
    + rewrite ends_sep_cons by discriminate. destruct (keep d) eqn:Ed.
      * rewrite strip_lead_eq. change (HY =? HY) with true. cbv iota.
        rewrite (squash_lead_E (d :: t')). rewrite Ed. exact IH.
      * exact IH.
Qed.

Definition word_ok (w : str) : Prop := w <> [] /\ Forall (fun c => keep c = true) w.

Lemma words_ok : forall s, Forall word_ok (words s).
Proof.
  induction s as [|c t IH]; [constructor|]. cbn [words]. destruct (keep c) eqn:Ec; [|exact IH].
  destruct t as [|d t']; [repeat constructor; [discriminate | exact Ec]|].
  destruct (keep d) eqn:Ed.
  - destruct (words (d :: t')) as [|w ws]; [repeat constructor; [discriminate | exact Ec]|].
    inversion IH as [|? ? [Hw1 Hw2] Hws]; subst. constructor; [|exact Hws].
    split; [discriminate | constructor; assumption].
  - constructor; [|exact IH]. split; [discriminate | repeat constructor; exact Ec].
Qed.

Lemma joinh_cons : forall w ws, joinh (w :: ws) = match ws with [] => w | _ => w ++ [HY] ++ joinh ws end.
Proof. reflexivity. Qed.

Lemma joinh_last : forall ws, ws <> [] -> Forall word_ok ws ->
  joinh ws <> [] /\ keep (last (joinh ws) 0) = true.
Proof.
  induction ws as [|w ws IH]; intros Hne H; [congruence|]. inversion H as [|? ? [Hw1 Hw2] Hws]; subst.
  rewrite joinh_cons. destruct ws as [|w' ws'].
  - split; [exact Hw1|]. apply (Forall_last (fun c => keep c = true)); assumption.
  - destruct (IH ltac:(discriminate) Hws) as [Hj1 Hj2]. split.
    + destruct w; [congruence | discriminate].
    + rewrite app_assoc. rewrite last_app_ne by exact Hj1. exact Hj2.
Qed.

Lemma strip_trail_app_hy : forall x, x <> [] -> strip_trail (x ++ [HY]) = x.
Proof.
  induction x as [|c t IH]; intro Hne; [congruence|]. cbn [app]. rewrite strip_trail_cons.
  destruct t as [|d t'].
  - cbn [app]. rewrite strip_trail_cons. change (HY =? HY) with true. reflexivity.
  - cbn [app] in *. rewrite IH by discriminate. reflexivity.
Qed.

Lemma strip_trail_id : forall x, x <> [] -> last x 0 <> HY -> strip_trail x = x.
Proof.
  induction x as [|c t IH]; intros Hne Hl; [congruence|]. rewrite strip_trail_cons.
  destruct t as [|d t'].
  - cbn in Hl. destruct (c =? HY) eqn:E; [lia | reflexivity].
  - rewrite last_cons_ne in Hl by discriminate. rewrite IH by (discriminate || exact Hl). reflexivity.
Qed.

(* the sanitised form is exactly the maximal alphanumeric runs of the name, joined by single hyphens *)
Theorem sanitize_is_joined_words : forall s, sanitize s = joinh (words s).
Proof.
  intro s. unfold sanitize. rewrite collapse_subst_squash. fold (E s). rewrite E_words.
  pose proof (words_ok s) as Hok. unfold trailj. destruct (words s) as [|w ws] eqn:Hw; [reflexivity|].
  destruct (joinh_last (w :: ws) ltac:(discriminate) Hok) as [Hne Hlast].
  destruct (ends_sep s).
  - apply strip_trail_app_hy. exact Hne.
  - rewrite app_nil_r. apply strip_trail_id; [exact Hne|]. apply keep_not_hy. exact Hlast.
Qed.

(* what `words` are: non-empty runs of alphanumerics whose concatenation is the name's alphanumerics *)
Theorem words_concat : forall s, concat (words s) = filter keep s.
Proof.
  induction s as [|c t IH]; [reflexivity|]. cbn [words filter]. destruct (keep c) eqn:Ec; [|exact IH].
  destruct t as [|d t']; [reflexivity|]. destruct (keep d) eqn:Ed.
  - destruct (words_keep_head d t' Ed) as [w [ws Hw]]. rewrite Hw in *. cbn [concat app] in *. rewrite IH. reflexivity.
  - cbn [concat app]. rewrite IH. reflexivity.
Qed.


Theorem words_spec : forall s, Forall word_ok (words s) /\ concat (words s) = filter keep s.
Proof. intro s. split; [apply words_ok | apply words_concat]. Qed.
